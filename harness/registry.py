"""Named history generators used by campaign shards: name -> fn(machine, rng, job) -> (oplist, meta)."""
from .drivers import history, funcs, twins, textfam, spellings


def gen_history(m, rng, job):
    g = history.Gen(m, rng, history.PROFILES[job['profile']], maxlen=job.get('maxlen', 8),
                    odd=job.get('odd', 0.0), more=job.get('more', 0.3), anstr=job.get('anstr', 0.15), alpha=job.get('alpha'))
    g.ctrl = job.get('ctrl', 0.0)
    return g.run(job.get('nops', 10), epilogue=job.get('epilogue', ())), {}


def gen_model_replay(m, rng, job):
    from . import models, ops
    h = job['hist'][job['base'] - 1 + job['_k']]
    oplist = [models.desc_to_op(d) for d in h]
    done = []
    for o in oplist:
        # the model's register numbers assume that every earlier step produced its result: when an earlier step failed on
        # the implementation (already recorded as a failing clause of that event) the rest of the history cannot be run
        if any(isinstance(o.get(k), int) and o[k] >= len(m.regs) for k in ('r', 'other', 'new', 'src')) or \
           any(i >= len(m.regs) for i in o.get('items', [])):
            break
        ops.run(m, o)
        done.append(o)
    return done, {}


GENERATORS = {'model_replay': gen_model_replay, 'history': gen_history, 'render_family': history.gen_render_family, 'roundtrip_family': history.gen_roundtrip_family, 'parse_input': history.gen_parse_input,
              'pgs': funcs.gen_pgs, 'pgs_codes': funcs.gen_pgs_codes, 's2d': funcs.gen_s2d, 'pcs': funcs.gen_pcs, 'pcs_boundary': funcs.gen_pcs_boundary, 'helper': funcs.gen_helper,
              'twins': twins.gen_twins, 'sp_names': spellings.gen_names, 'sp_codes': spellings.gen_codes,
              'sp_colours': spellings.gen_colours, 'sp_mix': spellings.gen_mixtures, 'sp_hist': spellings.gen_spelled_history, 'text_family': textfam.gen_text_family, 'aset': funcs.gen_aset, 'aset_extra': funcs.gen_aset_extra}
