"""Operation vocabulary: op descriptions (plain JSON, also the replay format) -> calls on the real objects.

An op description is a dict {"op": name, "r": receiver register or 0, ...op specific..., "tag": str}.
`run(m, op)` performs the call under the watchdog and emits one event into Machine m.
Setting arguments are described by *forms* (see build_setting) together with the texts the driver
declares them to denote ("S"); the spec, not this file, decides whether the library honoured them.
"""
import os
import re
import sys

from .core import cps, uncps, opt, guarded, clamp


# ---- setting forms ---------------------------------------------------------------------------------
def build_setting(lib, f):
    k = f['k']
    if k == 'fmt':
        return getattr(lib.AnsiFormat, f['v'])
    if k in ('int', 'str'):
        return f['v']
    if k == 'verb':
        return '[' + f['v']
    if k == 'aset':
        return lib.AnsiSetting(f['v'])
    if k == 'aset_astr':      # AnsiSetting built from an AnsiStr (a str): its TEXT is the setting
        return lib.AnsiSetting(lib.AnsiStr(f['v'], 'red'))
    if k == 'str_astr':       # a name / code string given as an AnsiStr (a str): read like the same str
        return lib.AnsiStr(f['v'], 'red')
    if k == 'verb_astr':      # '[...' given as an AnsiStr
        return lib.AnsiStr('[' + f['v'], 'bold')
    if k == 'list':
        return [build_setting(lib, x) for x in f['v']]
    if k == 'tuple':
        return tuple(build_setting(lib, x) for x in f['v'])
    if k == 'call':     # AnsiFormat.<fn>(*args)
        return getattr(lib.AnsiFormat, f['fn'])(*f['v'])
    if k == 'none':
        return None
    raise ValueError('unknown setting form ' + repr(f))


def build_settings(lib, forms):
    return [build_setting(lib, f) for f in forms]


def b(x):
    return 1 if x else 0


# ---- op implementations ----------------------------------------------------------------------------
# Each returns (a, call, rkind, extra) where
#   a      spec-visible arguments
#   call   thunk performing the library call (receives nothing)
#   rkind  'obj' (one library object), 'objs' (list/tuple of them), 'none', 'scalar'
#   extra  dict: inplace (bool), obs (callable(result)->dict) ...
OPS = {}


def op(name):
    def deco(fn):
        OPS[name] = fn
        return fn
    return deco


def cls_of(m, k):
    return m.lib.AnsiString if k == 'S' else m.lib.AnsiStr


@op('lit')
def _lit(m, o):
    s = o['text']
    return {'text': cps(s)}, (lambda: str(s)), 'obj', {}


@op('new')
def _new(m, o):
    C = cls_of(m, o['cls'])
    sets = build_settings(m.lib, o.get('sets', []))
    if 'src' in o:
        src = m.regs[o['src']]
        a = {'cls': o['cls'], 'src': o['src'], 'text': [], 'S': m.texts.tids(o.get('S', []))}
    else:
        src = o['text']
        a = {'cls': o['cls'], 'src': 0, 'text': cps(src), 'S': m.texts.tids(o.get('S', []))}
    return a, (lambda: C(src, *sets)), 'obj', {}


@op('copy')
def _copy(m, o):
    x = m.regs[o['r']]
    if m.kinds[o['r']] == 'S':
        return {}, (lambda: x.copy()), 'obj', {}
    return {}, (lambda: m.lib.AnsiStr(x)), 'obj', {}


@op('apply')
def _apply(m, o):
    x = m.regs[o['r']]
    sets = build_settings(m.lib, o['sets'])
    if o.get('single') and len(sets) == 1:
        sets = sets[0]          # the bare form instead of a one-element list
    a = {'S': m.texts.tids(o['S']), 'start': opt(o.get('start', 0)), 'end': opt(o.get('end')), 'top': b(o.get('top', True))}
    kw = {}
    args = [sets]
    if 'start' in o or 'end' in o or 'top' in o:
        args = [sets, o.get('start', 0), o.get('end'), o.get('top', True)]
    ip = m.kinds[o['r']] == 'S'
    return a, (lambda: x.apply_formatting(*args, **kw)), ('none' if ip else 'obj'), {'inplace': ip}


@op('apply_match')
def _apply_match(m, o):
    """apply_formatting_for_match(settings, match, group): logged as an 'apply' event over the span of the group (Python's re
    is the oracle for the span), so the C06 contract judges it."""
    x = m.regs[o['r']]
    sets = build_settings(m.lib, o['sets'])
    mt = re.search(o['pat'], x.base_str)
    grp = o.get('group', 0)
    ip = m.kinds[o['r']] == 'S'
    if mt is None or mt.start(grp) < 0:
        return {'S': m.texts.tids(o['S']), 'start': [0], 'end': [0], 'top': 1, 'nomatch': 1}, (lambda: None), 'none', {'inplace': ip, 'rename': 'noop'}
    a = {'S': m.texts.tids(o['S']), 'start': opt(mt.start(grp)), 'end': opt(mt.end(grp)), 'top': 1, 'nomatch': 0}
    return a, (lambda: x.apply_formatting_for_match(sets, mt, grp)), ('none' if ip else 'obj'), {'inplace': ip, 'rename': 'apply'}


@op('remove')
def _remove(m, o):
    x = m.regs[o['r']]
    if o.get('all'):
        sets = None
        a = {'all': 1, 'Sel': []}
    else:
        sets = build_settings(m.lib, o['sets'])
        if o.get('single') and len(sets) == 1:
            sets = sets[0]          # the bare form instead of a one-element list
        a = {'all': 0, 'Sel': m.texts.tids(o['S'])}
    a.update({'start': opt(o.get('start', 0)), 'end': opt(o.get('end'))})
    ip = m.kinds[o['r']] == 'S'
    return a, (lambda: x.remove_formatting(sets, o.get('start', 0), o.get('end'))), ('none' if ip else 'obj'), {'inplace': ip}


@op('clear')
def _clear(m, o):
    x = m.regs[o['r']]
    ip = m.kinds[o['r']] == 'S'
    return {}, (lambda: x.clear_formatting()), ('none' if ip else 'obj'), {'inplace': ip}


@op('slice')
def _slice(m, o):
    x = m.regs[o['r']]
    st, en = o.get('start'), o.get('stop')
    return {'start': opt(st), 'stop': opt(en)}, (lambda: x[st:en]), 'obj', {}


@op('index')
def _index(m, o):
    x = m.regs[o['r']]
    i = o['i']
    return {'i': clamp(i)}, (lambda: x[i]), 'obj', {}


@op('clip')
def _clip(m, o):
    x = m.regs[o['r']]
    st, en = o.get('start'), o.get('end')
    ip = bool(o.get('inplace')) and m.kinds[o['r']] == 'S'
    a = {'start': opt(st), 'stop': opt(en), 'inplace': b(ip)}
    if m.kinds[o['r']] == 'S':
        return a, (lambda: x.clip(st, en, inplace=ip)), 'obj', {'inplace': ip}
    return a, (lambda: x.clip(st, en)), 'obj', {}


@op('iter')
def _iter(m, o):
    x = m.regs[o['r']]
    return {}, (lambda: list(iter(x))), 'objs', {}


@op('add')
def _add(m, o):
    x, y = m.regs[o['r']], m.regs[o['other']]
    return {'other': o['other']}, (lambda: x + y), 'obj', {}


@op('iadd')
def _iadd(m, o):
    x, y = m.regs[o['r']], m.regs[o['other']]
    ip = m.kinds[o['r']] == 'S'

    def call():
        z = x
        z += y
        return z
    return {'other': o['other']}, call, 'obj', {'inplace': ip}


@op('join')
def _join(m, o):
    C = cls_of(m, o['cls'])
    items = [m.regs[i] for i in o['items']]
    return {'cls': o['cls'], 'items': list(o['items'])}, (lambda: C.join(*items)), 'obj', {}


@op('render')
def _render(m, o):
    x = m.regs[o['r']]
    spec = o.get('spec')
    how = o.get('how', 'to_str')
    fl = [b(o.get('optimize', True)), b(o.get('reset_start', False)), b(o.get('reset_end', True))]
    if how != 'to_str':
        fl = [1, 0, 1]
    # the transcribed renderer (drift.render) is costly to evaluate: every event in the thorough tier, a sample otherwise
    every = int(os.environ.get('VERIF_DRIFT_RENDER_EVERY', '6'))
    a = {'how': how, 'spec': cps(spec or ''), 'flags': fl, 'drift': b(len(m.events) % every == 0)}
    if how == 'str':
        call = lambda: str(x)
    elif how == 'format':
        call = lambda: format(x, spec or '')
    elif how == 'fstr':
        call = lambda: ('{:' + (spec or '') + '}').format(x)
    else:
        call = lambda: x.to_str(spec, bool(fl[0]), bool(fl[1]), bool(fl[2]))

    def obs(v):
        return {'out': cps(v), 'valid': b(x.is_formatting_valid()), 'parsable': b(x.is_formatting_parsable())}
    return a, call, 'scalar', {'obs': obs}


@op('reparse')
def _reparse(m, o):
    x = m.regs[o['r']]
    C = cls_of(m, o.get('cls', 'S'))
    opt = o.get('opt', True)      # opt=False: the non-optimised rendering is parsed (another way to reach a value)
    return {'cls': o.get('cls', 'S'), 'opt': b(opt)}, (lambda: C(str(x) if opt else x.to_str(optimize=False))), 'obj', {}


@op('simplify')
def _simplify(m, o):
    x = m.regs[o['r']]
    ip = m.kinds[o['r']] == 'S'
    A = m.lib.AnsiString

    def obs(v):
        y = x if ip else v
        c2 = A(y)
        c2.simplify()
        return {'parsable': b(y.is_formatting_parsable()), 'q2': cps(str(c2)), 'rt': cps(str(A(str(y))))}
    return {}, (lambda: x.simplify()), ('none' if ip else 'obj'), {'inplace': ip, 'obs': obs}


@op('twin_eq')
def _twin_eq(m, o):
    """== and != between two AnsiStrings and between their two AnsiStr twins: the four answers are logged."""
    s1, s2, a1, a2 = (m.regs[o[k]] for k in ('s1', 's2', 'a1', 'a2'))
    return {'s1': o['s1'], 's2': o['s2'], 'a1': o['a1'], 'a2': o['a2']}, (lambda: None), 'scalar', \
        {'obs': lambda v: {'eq_s': b(s1 == s2), 'eq_a': b(a1 == a2), 'ne_s': b(s1 != s2), 'ne_a': b(a1 != a2),
                           'ne_plain': b(a1 != a1.base_str), 'eq_plain': b(a1 == a1.base_str)}}


@op('eq')
def _eq(m, o):
    x, y = m.regs[o['r']], m.regs[o['other']]
    return {'other': o['other']}, (lambda: x == y), 'scalar', {'obs': lambda v: {'eq': b(v)}}


# ---- runner ----------------------------------------------------------------------------------------
def run(m, o):
    name = o['op']
    a, call, rkind, extra = OPS[name](m, o)
    r = o.get('r', 0)
    out, val = guarded(call)
    res, same, obs = [], 0, {}
    if out == 'ok':
        if rkind == 'obj':
            if m.kind_of(val) == '?':
                out = 'badtype'
            else:
                same = 1 if (r and val is m.regs[r]) else 0
                res = [m.alloc(val)]
        elif rkind == 'objs':
            if not isinstance(val, (list, tuple)) or any(m.kind_of(v) == '?' for v in val):
                out = 'badtype'
            else:
                obs['rtype'] = type(val).__name__
                res = [m.alloc(v) for v in val]
        elif rkind == 'fmt':
            ret, twin = val
            if not isinstance(ret, str):
                out = 'badtype'
            else:
                obs['out'] = cps(ret)
                if twin is not None:
                    res = [m.alloc(twin)]
                    obs['twin_out'] = cps(twin.to_str())
        elif rkind == 'matching':
            ret, twin = val
            treg = m.alloc(twin)
            if extra.get('inplace'):
                if ret is not None:
                    obs['ret_not_none'] = 1
                res = [treg]
            elif m.kind_of(ret) == '?':
                out = 'badtype'
            else:
                res = [m.alloc(ret), treg]
        elif rkind == 'none':
            if val is not None:
                # in-place mutators of AnsiString return None; anything else is recorded
                obs['ret_not_none'] = 1
        if 'obs' in extra and out == 'ok':
            # the queries needed to observe the result are public calls too: if one of them raises, the operation is
            # recorded with that outcome (a later query / rendering raising on a reachable value is a C09 matter)
            o2, ob = guarded(lambda: extra['obs'](val))
            if o2 == 'ok':
                obs.update(ob)
            else:
                out = 'observe-' + o2
    else:
        obs['msg'] = cps(str(val)[:80]) if val is not None else []
        if 'obs_on_fail' in extra:
            obs.update(extra['obs_on_fail']())
    a['inplace'] = b(extra.get('inplace', False))
    return m.emit(extra.get('rename', name), r, a, out, res, same, obs, o.get('tag', ''))


# ---- function-shaped operations (C15, C18, C19) ----------------------------------------------------
EFFECT_GROUP = {'BOLDNESS': 'bold', 'ITALICS': 'ital', 'UNDERLINE': 'ul', 'BLINKING': 'blink', 'SWAP_BG_FG': 'swap',
                'VISIBILITY': 'hide', 'CROSSED_OUT': 'cross', 'FONT_TYPE': 'font', 'SPACING': 'space', 'BOXING': 'box',
                'OVERLINE': 'over', 'FG_COLOR': 'fg', 'BG_COLOR': 'bg', 'UL_COLOR': 'ulc', 'RESET': 'reset'}


@op('pgs')
def _pgs(m, o):
    """codes: ints; -1 stands for an EMPTY parameter ('' between two separators), which a terminal reads as 0."""
    codes = list(o['codes'])
    enc = o['enc']
    txt = lambda c: '' if c == -1 else str(c)
    if enc == 'str':
        arg = ';'.join(txt(c) for c in codes)
    elif enc == 'ints':
        arg = [('' if c == -1 else c) for c in codes]
    else:
        arg = [txt(c) for c in codes]
    adderr = bool(o.get('adderr'))
    a = {'codes': codes, 'enc': enc, 'adderr': b(adderr)}
    before = list(arg) if isinstance(arg, list) else arg
    types_before = [type(x) for x in arg] if isinstance(arg, list) else None

    def obs(v):
        red = m.lib.settings_to_dict(v)
        same = arg == before and (types_before is None or [type(x) for x in arg] == types_before)
        return {'res': m.texts.tids([str(x) for x in v]), 'red': m.texts.tids([str(x) for x in red.values()]), 'args_same': b(same)}
    return a, (lambda: m.lib.parse_graphic_sequence(arg, adderr)), 'scalar', {'obs': obs}


@op('s2d')
def _s2d(m, o):
    A = m.lib.AnsiSetting
    S = [A(t) for t in o['S']]
    old_list = [A(t) for t in o['old']]
    old = {}
    for x in old_list:
        old = m.lib.settings_to_dict([x], old)
    S_before = [str(x) for x in S]
    old_before = [(k, str(v)) for k, v in old.items()]
    a = {'S': m.texts.tids(o['S']), 'old': m.texts.tids([str(v) for v in old.values()])}

    def obs(v):
        same = [str(x) for x in S] == S_before and [(k, str(val)) for k, val in old.items()] == old_before
        return {'dict': [[EFFECT_GROUP.get(k.name, k.name), m.texts.tid(str(val))] for k, val in v.items()],
                'args_same': b(same)}
    return a, (lambda: m.lib.settings_to_dict(S, old)), 'scalar', {'obs': obs}


def _try(fn):
    """-> [1]+cps(result) or [0]+cps(exception type name)"""
    out, v = guarded(fn)
    if out == 'ok' and isinstance(v, str):
        return [1] + cps(v)
    return [0] + cps(out if out != 'ok' else 'nonstr:' + type(v).__name__)


@op('pcs')
def _pcs(m, o):
    s = o['s']
    allow = bool(o.get('allow', True))
    acc = o.get('acc')
    a = {'s': cps(s), 'allow': b(allow), 'acc': [] if acc is None else [cps(acc)]}
    P = m.lib.ParsedAnsiControlSequenceString

    def obs(v):
        seqs = []
        for idx, lst in v.sequences.items():
            for q in lst:
                seqs.append([idx, cps(q.sequence), cps(q.terminator)])
        return {'unf': cps(v.unformatted_str), 'seqs': seqs,
                'fmt': _try(lambda: v.formatted_str if isinstance(v.formatted_str, str) else v.formatted_str()),
                'str': _try(lambda: str(v)), 'repr': _try(lambda: repr(v))}
    return a, (lambda: P(s, allow, acc)), 'scalar', {'obs': obs}


@op('helper')
def _helper(m, o):
    fn = getattr(m.lib, o['name'])
    args = list(o['args'])
    P = m.lib.ParsedAnsiControlSequenceString

    def obs(v):
        p = P(v)
        return {'res': cps(v), 'unf': cps(p.unformatted_str),
                'seqs': [[i, cps(q.sequence), cps(q.terminator)] for i, l in p.sequences.items() for q in l]}
    return {'name': o['name'], 'args': args}, (lambda: fn(*args)), 'scalar', {'obs': obs}


@op('aset')
def _aset(m, o):
    text = o['text']
    A = m.lib.AnsiSetting

    def call():
        x = A(text)
        xv1, xv2, xp1, xp2 = x.valid, x.valid, x.parsable, x.parsable      # valid first
        y = A(text)
        yp1, yv1, yp2 = y.parsable, y.valid, y.parsable                      # parsable first (the flags are cached)
        return {'valid': [b(xv1), b(xv2), b(yv1)], 'parsable': [b(xp1), b(xp2), b(yp1), b(yp2)]}
    return {'text': cps(text)}, call, 'scalar', {'obs': lambda v: v}


# ---- queries (C17) ---------------------------------------------------------------------------------
@op('ansi_settings_at')
def _asa(m, o):
    x = m.regs[o['r']]
    i = o['i']
    return {'i': clamp(i)}, (lambda: x.ansi_settings_at(i)), 'scalar', \
        {'obs': lambda v: {'lst': [[m.inst_id(s), m.texts.tid(str(s))] for s in v], 'str': cps(x.settings_at(i))}}


@op('find_settings')
def _fs(m, o):
    x = m.regs[o['r']]
    sets = build_settings(m.lib, o['sets'])
    st, en, rev = o.get('start', 0), o.get('end'), bool(o.get('reverse'))
    a = {'S': m.texts.tids(o['S']), 'start': opt(st), 'end': opt(en), 'reverse': b(rev)}

    def obs(v):
        ok = isinstance(v, tuple) and len(v) == 2
        return {'shape': b(ok), 'fs': opt(v[0]) if ok else [], 'fe': opt(v[1]) if ok else []}
    return a, (lambda: x.find_settings(sets, st, en, rev)), 'scalar', {'obs': obs}


# ---- format_matching / unformat_matching (C16) -------------------------------------------------------
def _matching(m, o, un):
    x = m.regs[o['r']]
    pat = o['pat']
    regex, mc, count = bool(o.get('regex')), bool(o.get('match_case')), o.get('count', -1)
    ip = m.kinds[o['r']] == 'S'
    if un:
        if o.get('all'):
            fmts, sel, allf = ([None] if o.get('explicit_none') else []), [], 1
        else:
            fmts, sel, allf = build_settings(m.lib, o['sets']), m.texts.tids(o['S']), 0
    else:
        fmts, sel, allf = build_settings(m.lib, o['sets']), m.texts.tids(o['S']), 0
    # oracle: Python's re on the base text (the property names it)
    text = x.base_str
    spans = []
    try:
        it = re.finditer(pat if regex else re.escape(pat), text, 0 if mc else re.IGNORECASE)
        for mt in it:
            if count >= 0 and len(spans) >= count:
                break
            spans.append([mt.start(), mt.end()])
        pat_ok = 1
    except re.error:
        pat_ok = 0
    # twin: the explicit loop of apply/remove on a copy
    twin = m.lib.AnsiString(x)
    for s_, e_ in spans:
        if un:
            twin.remove_formatting(None if allf else fmts, s_, e_)
        else:
            twin.apply_formatting(fmts, s_, e_)
    a = {'pat': cps(pat), 'regex': b(regex), 'mc': b(mc), 'count': clamp(count), 'S': sel, 'all': allf,
         'spans': spans, 'pat_ok': pat_ok, 'un': b(un)}
    kw = {'regex': regex, 'match_case': mc, 'count': count}
    fn = x.unformat_matching if un else x.format_matching
    # the pattern given as an AnsiStr (a str): its TEXT is the pattern
    pat_arg = m.lib.AnsiStr(pat, 'bold') if (o.get('pat_astr') and pat) else pat
    return a, (lambda: (fn(pat_arg, *fmts, **kw), twin)), 'matching', {'inplace': ip}


@op('format_matching')
def _fm(m, o):
    return _matching(m, o, False)


@op('unformat_matching')
def _ufm(m, o):
    return _matching(m, o, True)


# ---- twins (C13) -----------------------------------------------------------------------------------
@op('twinrender')
def _twinrender(m, o):
    return {'a': list(o['a']), 'b': list(o['b'])}, (lambda: None), 'scalar', {'obs': lambda v: {}}


@op('twincheck')
def _twin(m, o):
    return {'a': list(o['a']), 'b': list(o['b'])}, (lambda: None), 'scalar', {'obs': lambda v: {}}


# ---- str-like methods (C10, C11, C12) --------------------------------------------------------------
def _pycall(fn):
    out, v = guarded(fn)
    return out, v


def enc_py(v):
    """Encode a CPython str-method result for TLC."""
    if isinstance(v, bool):
        return {'t': 'b', 'v': b(v)}
    if isinstance(v, int):
        return {'t': 'i', 'v': clamp(v)}
    if isinstance(v, str):
        return {'t': 's', 'v': cps(v)}
    if isinstance(v, (list, tuple)) and all(isinstance(x, str) for x in v):
        return {'t': 'l', 'v': [cps(x) for x in v]}
    if isinstance(v, bytes):
        return {'t': 's', 'v': list(v)}
    return {'t': '?', 'v': 0}


def text_op(m, o, a, libcall, pycall, rkind, inplace=False, extra_obs=None):
    pyout, pyv = _pycall(pycall)

    def obs(v):
        d = {'pyout': pyout, 'py': enc_py(pyv) if pyout == 'ok' else {'t': 'x', 'v': 0}}
        if rkind == 'scalar':
            d['val'] = enc_py(v)
        if extra_obs:
            d.update(extra_obs(v))
        return d
    a = dict(a)
    a['m'] = o['m'] if 'm' in o else o['op']
    ex = {'inplace': inplace, 'obs': obs, 'obs_on_fail': lambda: {'pyout': pyout, 'py': enc_py(pyv) if pyout == 'ok' else {'t': 'x', 'v': 0}}}
    return a, libcall, rkind, ex


def _is_S(m, r):
    return m.kinds[r] == 'S'


@op('case')
def _case(m, o):
    x = m.regs[o['r']]
    meth = o['m']
    ip = bool(o.get('inplace')) and _is_S(m, o['r'])
    t = x.base_str
    if _is_S(m, o['r']):
        call = lambda: getattr(x, meth)(inplace=ip)
    else:
        call = lambda: getattr(x, meth)()
    return text_op(m, o, {}, call, (lambda: getattr(t, meth)()), 'obj', ip)


@op('pad')
def _pad(m, o):
    x = m.regs[o['r']]
    meth, width = o['m'], o['width']
    fill = o.get('fill')
    if 'fill_src' in o:
        # the fill character given as an AnsiStr (a str): its TEXT is the fill character
        fill_obj = m.regs[o['fill_src']]
        fill = fill_obj if type(fill_obj) is str else fill_obj.base_str
    ext = o.get('extend', True)
    ip = bool(o.get('inplace')) and _is_S(m, o['r'])
    t = x.base_str
    S = _is_S(m, o['r'])
    if meth == 'zfill':
        call = (lambda: x.zfill(width, inplace=ip)) if S else (lambda: x.zfill(width))
        py = lambda: t.rjust(width, '0')
        fillc, ext = '0', True
    else:
        f = ' ' if fill is None else fill
        fillc = f
        if S:
            args = [width] + ([] if fill is None else [fill_obj if 'fill_src' in o else fill])
            call = lambda: getattr(x, meth)(*args, inplace=ip, extend_formatting=ext)
        elif 'extend' in o:
            # the shared method takes extend_formatting on AnsiStr as on AnsiString (C13: same operation, same arguments)
            args = [width] + ([] if fill is None else [fill_obj if 'fill_src' in o else fill])
            call = lambda: getattr(x, meth)(*args, extend_formatting=ext)
        else:
            ext = True
            call = (lambda: getattr(x, meth)(width)) if fill is None else (lambda: getattr(x, meth)(width, fill))
        if meth == 'center':
            def py():
                if len(f) != 1:
                    raise TypeError('fill')
                if width > sys.maxsize:
                    return t.center(width, f)       # str's own error for a width beyond the index range
                n = max(0, width - len(t))
                return f * (n // 2) + t + f * (n - n // 2)
        else:
            py = lambda: getattr(t, meth)(width, f)
    a = {'width': clamp(width), 'fill': cps(fillc), 'extend': b(ext)}
    return text_op(m, o, a, call, py, 'obj', ip)


@op('pad_huge')
def _pad_huge(m, o):
    """A padding far beyond what can be projected character by character: the result is NOT kept as a register; its length
    and a sample of positions (text and settings) are logged and judged against the padding contract."""
    x = m.regs[o['r']]
    meth, width = o['m'], o['width']
    fill = o.get('fill', ' ')
    ext = o.get('extend', True)
    S = _is_S(m, o['r'])
    if meth == 'zfill':
        call = (lambda: x.zfill(width)) if True else None
        fill, ext = '0', True
    elif S:
        call = lambda: getattr(x, meth)(width, fill, inplace=False, extend_formatting=ext)
    else:
        ext = True
        call = lambda: getattr(x, meth)(width, fill)
    n = len(x.base_str)

    def obs(v):
        total = len(v)
        num = max(0, width - n)
        left = num if meth in ('rjust', 'zfill') else (num // 2 if meth == 'center' else 0)
        pos = sorted({p for p in (0, 1, left - 1, left, left + n - 1, left + n, total - 2, total - 1, total // 2) if 0 <= p < total})
        return {'len': total, 'pos': pos, 'chars': [ord(v.base_str[p]) for p in pos],
                'sty': [[[m.inst_id(s_), m.texts.tid(str(s_))] for s_ in v.ansi_settings_at(p)] for p in pos],
                'beyond': len(v.ansi_settings_at(total)), 'rendered_len': len(str(v))}
    return {'m': meth, 'width': clamp(width), 'fill': cps(fill), 'extend': b(ext)}, call, 'scalar', {'obs': obs}


@op('strip')
def _strip(m, o):
    x = m.regs[o['r']]
    meth = o['m']
    chars = o.get('chars')
    ip = bool(o.get('inplace')) and _is_S(m, o['r'])
    t = x.base_str
    if _is_S(m, o['r']):
        call = lambda: getattr(x, meth)(chars, inplace=ip)
    else:
        call = lambda: getattr(x, meth)(chars)
    py = lambda: getattr(t, meth)(' \t\n\r\v\f' if chars is None else chars)
    return text_op(m, o, {'chars': [] if chars is None else [cps(chars)]}, call, py, 'obj', ip)


@op('rmfix')
def _rmfix(m, o):
    x = m.regs[o['r']]
    meth, s = o['m'], o['s']
    ip = bool(o.get('inplace')) and _is_S(m, o['r'])
    t = x.base_str
    call = (lambda: getattr(x, meth)(s, inplace=ip)) if _is_S(m, o['r']) else (lambda: getattr(x, meth)(s))
    return text_op(m, o, {'s': cps(s)}, call, (lambda: getattr(t, meth)(s)), 'obj', ip)


@op('replace')
def _replace(m, o):
    x = m.regs[o['r']]
    old, count = o['old'], o.get('count', -1)
    new = m.regs[o['new']]
    ip = bool(o.get('inplace')) and _is_S(m, o['r'])
    t = x.base_str
    newt = new if isinstance(new, str) and not hasattr(new, 'base_str') else new.base_str
    if _is_S(m, o['r']):
        call = lambda: x.replace(old, new, count, inplace=ip)
    else:
        call = lambda: x.replace(old, new, count)
    py = lambda: t.replace(old, newt, count)
    return text_op(m, o, {'old': cps(old), 'new': o['new'], 'count': clamp(count)}, call, py, 'obj', ip)


@op('expandtabs')
def _expandtabs(m, o):
    x = m.regs[o['r']]
    ts = o.get('tabsize', 8)
    ip = bool(o.get('inplace')) and _is_S(m, o['r'])
    t = x.base_str
    call = (lambda: x.expandtabs(ts, inplace=ip)) if _is_S(m, o['r']) else (lambda: x.expandtabs(ts))
    return text_op(m, o, {'tabsize': clamp(ts)}, call, (lambda: t.replace('\t', ' ' * ts)), 'obj', ip)


@op('split')
def _split(m, o):
    x = m.regs[o['r']]
    meth, sep, mx = o['m'], o.get('sep'), o.get('maxsplit', -1)
    t = x.base_str
    return text_op(m, o, {'sep': [] if sep is None else [cps(sep)], 'maxsplit': clamp(mx)},
                   (lambda: getattr(x, meth)(sep, mx)), (lambda: getattr(t, meth)(sep, mx)), 'objs')


@op('splitlines')
def _splitlines(m, o):
    x = m.regs[o['r']]
    keep = bool(o.get('keepends'))
    t = x.base_str
    return text_op(m, o, {'keep': b(keep)}, (lambda: x.splitlines(keep)), (lambda: t.splitlines(keep)), 'objs')


@op('partition')
def _partition(m, o):
    x = m.regs[o['r']]
    meth, sep = o['m'], o['sep']
    t = x.base_str
    return text_op(m, o, {'sep': cps(sep)}, (lambda: getattr(x, meth)(sep)), (lambda: getattr(t, meth)(sep)), 'objs')


@op('assign_str')
def _assign(m, o):
    x = m.regs[o['r']]
    if 'src' in o:
        # the new text given as an AnsiStr (a str): its TEXT is what is assigned
        arg = m.regs[o['src']]
        s = arg if type(arg) is str else arg.base_str
        return {'text': cps(s)}, (lambda: x.assign_str(arg)), 'none', {'inplace': True}
    s = o['text']
    return {'text': cps(s)}, (lambda: x.assign_str(s)), 'none', {'inplace': True}


QUERY0 = ['isalnum', 'isalpha', 'isascii', 'isdecimal', 'isdigit', 'isidentifier', 'islower', 'isnumeric', 'isprintable',
          'isspace', 'istitle', 'isupper']
QUERY_SUB = ['count', 'find', 'rfind', 'index', 'rindex', 'endswith']


@op('query')
def _query(m, o):
    x = m.regs[o['r']]
    meth = o['m']
    t = x.base_str
    if meth in QUERY0:
        return text_op(m, o, {}, (lambda: getattr(x, meth)()), (lambda: getattr(t, meth)()), 'scalar')
    if meth == 'len':
        return text_op(m, o, {}, (lambda: len(x)), (lambda: len(t)), 'scalar')
    if meth == 'contains':
        other = m.regs[o['other']] if 'other' in o else o['sub']
        ot = other if type(other) is str else other.base_str
        return text_op(m, o, {'sub': cps(ot)}, (lambda: other in x), (lambda: ot in t), 'scalar')
    if meth == 'encode':
        return text_op(m, o, {}, (lambda: x.encode()), (lambda: str(x).encode()), 'scalar')
    sub, st, en = o['sub'], o.get('start'), o.get('end')
    return text_op(m, o, {'sub': cps(sub), 'start': opt(st), 'end': opt(en)},
                   (lambda: getattr(x, meth)(sub, st, en)), (lambda: getattr(t, meth)(sub, st, en)), 'scalar')


# ---- format spec (C12) -----------------------------------------------------------------------------
def parse_sf(sf):
    k = 0
    while k < len(sf) and sf[len(sf) - 1 - k].isascii() and sf[len(sf) - 1 - k].isdigit():
        k += 1
    pre, d = sf[:len(sf) - k], sf[len(sf) - k:]
    w = int(d) if d else None
    if len(pre) == 0:
        return {'fill': ' ', 'ext': True, 'align': '<', 'width': w, 'amb': False}
    if len(pre) == 1 and pre in '<>^':
        return {'fill': ' ', 'ext': True, 'align': pre, 'width': w, 'amb': False}
    if len(pre) == 2 and pre[1] in '<>^':
        return {'fill': pre[0], 'ext': True, 'align': pre[1], 'width': w, 'amb': pre[0] in '+-'}
    if len(pre) == 3 and pre[2] in '<>^' and pre[1] in '+-':
        return {'fill': pre[0], 'ext': pre[1] == '+', 'align': pre[2], 'width': w, 'amb': False}
    return None


def parse_fmt(spec):
    """Independent reading of the format-spec grammar (longest valid string_format wins); audited against
    spec/FormatSpec.tla by the clause audit.fmt_parse."""
    cands = []
    if parse_sf(spec) is not None:
        cands.append(0)
    for c in range(len(spec)):
        if spec[c] == ':' and parse_sf(spec[:c]) is not None:
            cands.append(c + 1)
    if not cands:
        return None
    c = 0 if 0 in cands else max(cands)
    if c == 0:
        p = parse_sf(spec)
        p['ansi'] = None
    else:
        p = parse_sf(spec[:c - 1])
        p['ansi'] = spec[c:]
    return p


@op('fmt_huge')
def _fmt_huge(m, o):
    """A format spec whose width does not fit a machine index: str raises ValueError for it; outcome only."""
    x = m.regs[o['r']]
    spec = o['spec']
    pyout, _ = guarded(lambda: format(x.base_str, spec.split(':')[0] if not spec.startswith(':') else spec))
    return {'spec': cps(spec), 'pyout': pyout}, (lambda: format(x, spec)), 'scalar', {'obs': lambda v: {}}


@op('fmt')
def _fmt(m, o):
    x = m.regs[o['r']]
    spec = o['spec']
    how = o.get('how', 'format')
    p = parse_fmt(spec)
    A = m.lib.AnsiString
    ansi_ok, twin, twin_err = 1, None, ''
    if p is not None:
        if p['ansi']:
            out, _ = guarded(lambda: A('a', p['ansi']))
            ansi_ok = b(out == 'ok')

        def build():
            t = A(x)
            if not p['ext'] and p['ansi']:
                t.apply_formatting(p['ansi'])
            if p['width'] is not None:
                meth = {'<': t.ljust, '>': t.rjust, '^': t.center}[p['align']]
                meth(p['width'], p['fill'], inplace=True, extend_formatting=p['ext'])
            if p['ext'] and p['ansi']:
                t.apply_formatting(p['ansi'])
            return t
        if ansi_ok:
            out, twin = guarded(build)
            if out != 'ok':
                twin, twin_err = None, out
    a = {'spec': cps(spec), 'how': how,
         'py_valid': b(p is not None),
         'py': ({'fill': ord(p['fill']), 'ext': b(p['ext']), 'align': ord(p['align']), 'haswidth': b(p['width'] is not None),
                 'width': clamp(p['width'] or 0), 'amb': b(p['amb']), 'hasansi': b(p['ansi'] is not None),
                 'ansi': cps(p['ansi'] or '')} if p is not None else {'fill': 0}),
         'ansi_ok': ansi_ok, 'has_twin': b(twin is not None)}
    if how == 'format':
        call = lambda: format(x, spec)
    elif how == 'fstr':
        call = lambda: ('{:' + spec + '}').format(x)
    else:
        call = lambda: x.to_str(spec)
    return a, (lambda: (call(), twin)), 'fmt', {}


# ---- settings spellings (C14) ----------------------------------------------------------------------
def leaf_to_py(lib, l, rng_choice=None):
    """One leaf -> list of python elements that must stay adjacent at one nesting level."""
    k = l['k']
    if k == 'name':
        if l.get('as') == 'fmt':
            return [getattr(lib.AnsiFormat, l['mname'])]
        return [l['v']]
    if k == 'ints':
        enc = l.get('enc', 'int')
        if enc == 'int':
            v = list(l['v'])
            sp = l.get('split')      # nesting INSIDE a run of integer codes: [38, 2, (255, 0, 0)], [[38, 2], [255, 0, 0]]
            if sp and 0 < sp['at'] < len(v):
                wrap = (lambda x: tuple(x)) if sp.get('kind') == 'tuple' else (lambda x: list(x))
                if sp.get('both'):
                    return [wrap(v[:sp['at']]), wrap(v[sp['at']:])]
                return v[:sp['at']] + [wrap(v[sp['at']:])]
            return v
        if enc == 'str':
            return [str(x) for x in l['v']]
        if enc == 'joined':
            return [';'.join(str(x) for x in l['v'])]
        return [x if i % 2 else str(x) for i, x in enumerate(l['v'])]
    if k == 'verb':
        return [lib.AnsiSetting(l['v'])] if l.get('as') == 'aset' else ['[' + l['v']]
    if k == 'rgbs':
        return [l['v']]
    if k == 'rgbc':
        fn = getattr(lib.AnsiFormat, l['api'])
        if l.get('comp_kw'):
            return [fn(*l['args'], component=getattr(lib.ColorComponentType, l['comp_kw']))]
        return [fn(*l['args'])]
    raise ValueError(k)


def nest(elems_per_leaf, shape):
    """shape: list of (first_leaf, last_leaf, 'list'|'tuple') groupings, innermost first, non-crossing.
    Returns the top-level argument list; the elements of one leaf always stay adjacent at one level."""
    seq = [(i, i, e) for i, es in enumerate(elems_per_leaf) for e in es]      # (first leaf, last leaf, object)
    for a, b_, kind in shape:
        pos = [j for j, t in enumerate(seq) if t[0] >= a and t[1] <= b_]
        if not pos:
            continue
        lo, hi = pos[0], pos[-1]
        inner = [t[2] for t in seq[lo:hi + 1]]
        seq[lo:hi + 1] = [(a, b_, inner if kind == 'list' else tuple(inner))]
    return [t[2] for t in seq]


@op('scrub')
def _scrub(m, o):
    lib = m.lib
    leaves = o['leaves']
    elems = [leaf_to_py(lib, l) for l in leaves]
    arg = nest(elems, o.get('shape', []))
    if o.get('join_str'):
        # several directives in one ';'-separated string where every element is a str not starting with '['
        if arg and all(isinstance(x, str) and not x.startswith('[') and x != '' for x in arg):
            arg = [';'.join(arg)]
    selfref = 0
    if o.get('selfref'):
        lst = list(arg)
        lst.append(lst)
        arg = [lst]
        selfref = 1
    badtype = 0
    if o.get('badtype'):
        arg = list(arg) + [o['badtype'] == 'float' and 1.5 or {'a': 1}]
        badtype = 1
    single = o.get('single') and len(arg) == 1
    tl = []
    for l in leaves:
        d = {'k': l['k']}
        if l['k'] == 'name':
            d.update({'v': cps(l['v']), 'mname': cps(l.get('mname', '')), 'known': b(l.get('known', 1)),
                      'member': m.texts.tids([str(x) for x in getattr(lib.AnsiFormat, l['mname']).ansi_settings]) if l.get('known', 1) else []})
        elif l['k'] == 'ints':
            d['v'] = [clamp(x) for x in l['v']]
        elif l['k'] in ('verb', 'rgbs'):
            d['v'] = cps(l['v'])
        elif l['k'] == 'rgbc':
            d.update({'fn': l['fn'], 'comp': l['comp'], 'args': [clamp(x) for x in l['args']]})
        tl.append(d)
    empty = bool(o.get('empty'))      # the same argument on an EMPTY text: nothing to format, but a bad setting is still an error
    a = {'leaves': tl, 'selfref': selfref, 'badtype': badtype, 'empty': b(empty)}
    A = lib.AnsiString
    base = '' if empty else 'x'

    poison = o.get('poison_first')

    def call():
        if poison:
            # the SAME list object is first passed with a bad element (the call must fail), then repaired in place and reused
            shared = [poison if poison != 'neg' else -7]
            out0, _ = guarded(lambda: A('x', [shared]))
            shared[:] = list(arg)
            return A('x', [shared])
        return A(base, arg[0]) if single else A(base, *arg)

    def obs(v):
        rep = A(base, *[lib.AnsiSetting(str(s)) for s in v.ansi_settings_at(0)])
        return {'res': m.texts.tids([str(s) for s in v.ansi_settings_at(0)]), 'q': cps(str(v)), 'rep_q': cps(str(rep)),
                'valid': b(v.is_formatting_valid()), 'parsable': b(v.is_formatting_parsable())}
    return a, call, 'scalar', {'obs': obs}
