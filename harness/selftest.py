"""./check selftest - demonstrates that the specification is bound to what the harness records:
(a) a recorded trace passes; the same trace with ONE logged field corrupted is rejected with the expected clause;
(b) the design model with a sabotaged reference semantics violates ContractsHold.
This is not a property check (it is not in MANIFEST.checks)."""
import copy
import json
import os
import shutil

from . import core, ops, tlcrun, models

HISTORY = [
    {'op': 'new', 'cls': 'S', 'text': 'abcdef', 'sets': [{'k': 'fmt', 'v': 'FG_RED'}], 'S': ['31']},
    {'op': 'apply', 'r': 1, 'sets': [{'k': 'str', 'v': 'bold'}], 'S': ['1'], 'start': 1, 'end': 4, 'top': True},
    {'op': 'slice', 'r': 1, 'start': 2, 'stop': 5},
    {'op': 'lit', 'text': 'xy'},
    {'op': 'add', 'r': 2, 'other': 3, 'tag': 'probe_closed'},
    {'op': 'remove', 'r': 1, 'sets': [{'k': 'fmt', 'v': 'FG_RED'}], 'S': ['31'], 'start': 0, 'end': 2},
    {'op': 'iadd', 'r': 1, 'other': 2},
    {'op': 'render', 'r': 1, 'how': 'to_str', 'optimize': True, 'reset_start': True, 'reset_end': True},
    {'op': 'pad', 'r': 2, 'm': 'center', 'width': 8, 'fill': '*', 'extend': True},
]


def record():
    lib = core.load_lib()
    tx = core.TextTable()
    m = core.Machine(lib, tx)
    for o in HISTORY:
        ops.run(m, o)
    return m, tx


def corruptions(ev):
    """(description, mutate(events), clause expected to fail)"""
    def c1(e):      # the slice result reports a different setting on its first character
        e[2]['upd'][0][1]['s'][0][-1][1] = 1 if e[2]['upd'][0][1]['s'][0][-1][1] != 1 else 2
    def c2(e):      # the in-place apply changed a register it was not allowed to change (extra update)
        e[3]['upd'].append([1, copy.deepcopy(e[1]['upd'][0][1])])
        e[3]['upd'][-1][1]['s'][0] = []
    def c3(e):      # the update of the mutated register was not recorded (a lost observation): apply looks like a no-op
        e[1]['upd'] = []
    def c4(e):      # += did not return the receiver
        e[6]['same'] = 0
    def c5(e):      # one escape sequence of the rendering lost its last parameter
        out = e[7]['o']['out']
        i = max(k for k, c in enumerate(out) if c == 109)       # last 'm'
        e[7]['o']['out'] = out[:i - 1] + out[i:] if out[i - 1] != 91 else out[:i] + [49] + out[i:]
    def c6(e):      # the concatenated 'xy' inherited a style
        e[4]['upd'][0][1]['s'][-1] = copy.deepcopy(e[4]['upd'][0][1]['s'][0])
    def c7(e):      # the call raised something undocumented
        e[5]['out'] = 'raise:KeyError'
        e[5]['upd'] = []
    def c8(e):      # the left fill of center() is unstyled although formatting is extended
        e[8]['upd'][0][1]['s'][0] = []
    return [('slice result setting changed', c1, 'C04.sty'), ('foreign register changed', c2, 'C08.frame'),
            ('apply update dropped', c3, 'C06.inside_gains'), ('iadd returned another object', c4, 'C08.inplace_returns_self'),
            ('rendering corrupted', c5, 'C01.'), ('appended text styled', c6, 'C04.closed'),
            ('undocumented exception', c7, 'C09.outcome'), ('fill unstyled', c8, 'C12.fill_sty')]


def sabotaged_model():
    d = tlcrun.scratch('verif-selftest-')
    try:
        snap = os.path.join(d, 'spec')
        os.makedirs(snap)
        for fn in os.listdir(tlcrun.SPEC):
            if fn.endswith('.tla'):
                shutil.copy(os.path.join(tlcrun.SPEC, fn), os.path.join(snap, fn))
        p = os.path.join(snap, 'AnsiSystem.tla')
        s = open(p).read()
        assert 'ELSE new \\o v.s[i]' in s
        open(p, 'w').write(s.replace('ELSE new \\o v.s[i]', 'ELSE v.s[i] \\o new'))
        models.write_cfg(os.path.join(snap, 'MC.cfg'), 'quick', False)
        tf = os.path.join(d, 'texts.json')
        json.dump([[ord(c) for c in t] for t in models.PALETTE], open(tf, 'w'))
        rc, out, wall = tlcrun.run_tlc('AnsiSystem.tla', 'MC.cfg', env={'VERIF_TEXTS': tf}, workers=8, cwd=snap)
        return 'Action property ContractsHold is violated' in out
    finally:
        shutil.rmtree(d, ignore_errors=True)


def main():
    m, tx = record()
    base = [{'id': 1, 'nregs': len(m.regs) - 1, 'ev': m.events}]
    traces = list(base)
    cases = corruptions(m.events)
    for k, (desc, mut, clause) in enumerate(cases, start=2):
        ev = copy.deepcopy(m.events)
        mut(ev)
        traces.append({'id': k, 'nregs': len(m.regs) - 1, 'ev': ev})
    verdicts, states, trans, wall = tlcrun.validate_batch(traces, tx.rows)
    ok = True
    v = verdicts[1]
    print('unmodified trace: %d events, failing clauses: %s' % (v['n'], v['fails']))
    ok &= not v['fails']
    for k, (desc, mut, clause) in enumerate(cases, start=2):
        fails = [c for _, c in verdicts[k]['fails']]
        hit = any(c.startswith(clause) for c in fails)
        print('%-32s -> %s %s' % (desc, 'REJECTED' if hit else 'NOT REJECTED', sorted(set(fails))))
        ok &= hit
    sab = sabotaged_model()
    print('sabotaged reference model        -> %s' % ('ContractsHold violated' if sab else 'NOT DETECTED'))
    ok &= sab
    # the transcription with the ORIGINAL (defective) restart order of remove_formatting must violate the refinement
    old_d11 = ('Pt(restart \\o p.add, d.rem \\o extraRem)', 'Pt(p.add \\o d.removed, d.rem)')
    r = models.run_cp('cp_quick', sabotage=old_d11)
    hit = (not r['ok']) and 'Refines' in r['detail']
    print('transcription with the old restart order -> %s' % ('Refines violated' if hit else 'NOT DETECTED: ' + r['detail'][:200]))
    ok &= hit
    print('selftest ' + ('passed' if ok else 'FAILED'))
    return 0 if ok else 1
