"""Campaigns: generate histories on the real code (in parallel shards), validate each shard with TLC,
collect verdicts.  A shard = one worker process = its own text table, batch file and JVM."""
import json
import multiprocessing as mp
import os
import random
import shutil
import time
import traceback

from . import core, ops, tlcrun


def _run_shard(job):
    """job: dict(kind, seed, count, params...) -> dict(verdict rows, traces (op lists), stats)."""
    try:
        from . import registry
        lib = core.load_lib()
        texts = core.TextTable()
        rng = random.Random(job['seed'])
        traces, oplists, metas = [], {}, {}
        gen = registry.GENERATORS[job['gen']]
        t0 = time.time()
        for k in range(job['count']):
            tid = job['base'] + k
            m = core.Machine(lib, texts)
            job['_k'] = k
            oplist, meta = gen(m, rng, job)
            traces.append({'id': tid, 'nregs': max(1, len(m.regs) - 1), 'ev': m.events})
            oplists[tid] = oplist
            metas[tid] = meta
        gen_s = time.time() - t0
        nev = sum(len(t['ev']) for t in traces)
        verdicts, states, trans, wall = tlcrun.validate_batch(
            traces, texts.rows, module=job.get('module', 'TraceHistory'), cfg=job.get('cfg', 'TraceHistory.cfg'),
            timeout=job.get('timeout', 3000))
        out = []
        for t in traces:
            v = verdicts[t['id']]
            row = {'tid': t['id'], 'n': v['n'], 'fails': v['fails'], 'nt': v['nt'] if isinstance(v['nt'], dict) else {}}
            if v['fails'] or k < 0:
                row['oplist'] = oplists[t['id']]
                row['events'] = [{'op': e['op'], 'out': e['out'], 'a': e['a'], 'tag': e['tag']} for e in t['ev']]
            out.append(row)
        sample = {'ops': oplists[job['base']][:12]} if traces else None
        return {'ok': True, 'rows': out, 'states': states, 'transitions': trans, 'events': nev,
                'gen_s': gen_s, 'tlc_s': wall, 'sample': sample, 'meta': metas}
    except tlcrun.Machinery as e:
        return {'ok': False, 'err': 'machinery: ' + str(e)}
    except Exception:
        return {'ok': False, 'err': 'driver crashed:\n' + traceback.format_exc()}


def run_campaign(gen, total, seed, shards=14, per_shard_max=400, **params):
    """Generate `total` histories with generator `gen` split over shards; returns merged result."""
    shards = max(1, min(shards, total))
    per = (total + shards - 1) // shards
    jobs = []
    base = 1
    i = 0
    while base <= total:
        cnt = min(per, per_shard_max, total - base + 1)
        j = {'gen': gen, 'seed': seed * 100003 + i, 'count': cnt, 'base': base}
        j.update(params)
        jobs.append(j)
        base += cnt
        i += 1
    ctx = mp.get_context('fork')
    with ctx.Pool(min(len(jobs), shards)) as pool:
        results = pool.map(_run_shard, jobs, chunksize=1)
    merged = {'rows': [], 'states': 0, 'transitions': 0, 'events': 0, 'gen_s': 0.0, 'tlc_s': 0.0, 'samples': [],
              'errors': []}
    for r in results:
        if not r['ok']:
            merged['errors'].append(r['err'])
            continue
        merged['rows'] += r['rows']
        for k in ('states', 'transitions', 'events'):
            merged[k] += r[k]
        merged['gen_s'] = max(merged['gen_s'], r['gen_s'])
        merged['tlc_s'] = max(merged['tlc_s'], r['tlc_s'])
        if r['sample']:
            merged['samples'].append(r['sample'])
    return merged


def replay_oplist(oplist, module='TraceHistory', cfg='TraceHistory.cfg'):
    lib = core.load_lib()
    texts = core.TextTable()
    m = core.Machine(lib, texts)
    for o in oplist:
        ops.run(m, o)
    traces = [{'id': 1, 'nregs': max(1, len(m.regs) - 1), 'ev': m.events}]
    verdicts, states, trans, wall = tlcrun.validate_batch(traces, texts.rows, module=module, cfg=cfg)
    return verdicts[1], m


def run_repo_tests(only=None, shards=8):
    """The repository's own tests under the recorder (harness/pytest_recorder.py): every outermost public call of every test
    becomes an event; TLC judges them like any other trace.  Returns a campaign-shaped dict."""
    import subprocess
    import tempfile
    repo = os.environ.get('VERIF_REPO', '/repo')
    root = os.path.dirname(os.path.dirname(os.path.abspath(__file__)))
    d = tempfile.mkdtemp(prefix='verif-repotests-')
    try:
        out = os.path.join(d, 'traces.json')
        env = dict(os.environ, PYTHONPATH=root, VERIF_TRACE_OUT=out, PYTHONDONTWRITEBYTECODE='1', VERIF_REPO=repo)
        cmd = [os.path.join('/venv/bin/python') if os.path.exists('/venv/bin/python') else 'python3', '-m', 'pytest', '-q', '-p',
               'no:cacheprovider', '-p', 'harness.pytest_recorder', only or 'tests']
        p = subprocess.run(cmd, cwd=repo, env=env, stdout=subprocess.PIPE, stderr=subprocess.STDOUT, text=True, timeout=1800)
        tail = p.stdout.strip().splitlines()[-1] if p.stdout.strip() else ''
        res = {'rows': [], 'states': 0, 'transitions': 0, 'events': 0, 'gen_s': 0.0, 'tlc_s': 0.0, 'samples': [], 'errors': [],
               'pytest_summary': tail}
        if not os.path.exists(out):
            res['errors'].append('repository tests under the recorder produced no trace file: ' + p.stdout[-800:])
            return res
        doc = json.load(open(out))
        traces = doc['traces']
        names = {t['id']: t.pop('name') for t in traces}
        try:
            verdicts, states, trans, wall = tlcrun.validate_sharded(traces, doc['texts'], shards=shards)
        except tlcrun.Machinery as e:
            res['errors'].append('machinery: ' + str(e))
            return res
        for t in traces:
            v = verdicts[t['id']]
            row = {'tid': t['id'], 'n': v['n'], 'fails': v['fails'], 'nt': v['nt'] if isinstance(v['nt'], dict) else {},
                   'repo_test': names[t['id']]}
            if v['fails']:
                row['oplist'] = [{'repo_test': names[t['id']]}]
                row['events'] = [{'op': e['op'], 'out': e['out'], 'a': e['a'], 'tag': e['tag']} for e in t['ev']]
            res['rows'].append(row)
        res['states'], res['transitions'] = states, trans
        res['events'] = sum(len(t['ev']) for t in traces)
        res['samples'] = [{'repo_test': names[traces[0]['id']], 'events': [e['op'] for e in traces[0]['ev']][:12]}] if traces else []
        return res
    finally:
        shutil.rmtree(d, ignore_errors=True)
