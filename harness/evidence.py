"""Evidence files (/verif/evidence/<id>.json, schema /root/.vp/EVIDENCE.schema.json)."""
import json
import os

ROOT = os.path.dirname(os.path.dirname(os.path.abspath(__file__)))
EVDIR = os.path.join(ROOT, 'evidence')


def write(prop, tier, seed, coverage, wall_s, violations, assumptions):
    os.makedirs(EVDIR, exist_ok=True)
    doc = {'property_id': prop, 'tier': tier, 'seed': int(seed), 'level': 'model_checking',
           'coverage': coverage, 'assumptions': assumptions, 'wall_s': round(wall_s, 2), 'violations': int(violations)}
    path = os.path.join(EVDIR, prop + '.json')
    with open(path + '.tmp', 'w') as f:
        json.dump(doc, f, indent=1)
    os.replace(path + '.tmp', path)
    return path
