"""pytest plugin: runs the repository's own tests with the public API of AnsiString/AnsiStr wrapped, so that every
outermost public call becomes one recorded event (same format as harness/ops.py emits) and TLC evaluates every contract
clause at every step of the histories the maintainers wrote.  Loaded with  -p harness.pytest_recorder  (PYTHONPATH=/verif);
writes $VERIF_TRACE_OUT (JSON: {"texts": [...], "traces": [...]}).  Nothing in the repository is changed.

Only calls whose arguments fit the op vocabulary are given op-specific contracts; every other public call is logged as
op "call" and is still subject to the common clauses (frames, aliasing, outcomes, consistency, payload).
"""
import functools
import json
import os
import re

import pytest

from . import core
from .core import cps, opt, clamp
from .ops import b, enc_py

STATE = {'m': None, 'depth': 0, 'traces': [], 'texts': None, 'lib': None, 'n': 0, 'orig_scrub': None}


def lib():
    if STATE['lib'] is None:
        import sys
        src = os.path.join(os.environ.get('VERIF_REPO', '/repo'), 'src')
        if src not in sys.path:
            sys.path.insert(0, src)
        import ansi_string
        STATE['lib'] = ansi_string
    return STATE['lib']


def scrub_texts(settings):
    """Texts the library itself reads from a settings argument (its reading of spellings is judged by check C14)."""
    L = lib()
    try:
        return [str(x) for x in L.ansi_string._AnsiSettingPoint._scrub_ansi_settings(settings)]
    except Exception:
        return None


def reg(obj):
    m = STATE['m']
    r = m.reg_of(obj)
    if r:
        return r
    if m.kind_of(obj) == 'P':
        r = m.alloc(obj)
    else:
        r = m.alloc(obj)
    m.emit('adopt', 0, {'inplace': 0}, 'ok', [r], 0, {})
    return r


def outcome(exc):
    if exc is None:
        return 'ok'
    if isinstance(exc, ValueError) and 'could not remove setting' in str(exc):
        return 'selfcheck'
    return 'raise:' + type(exc).__name__


def record(opname, r, a, exc, result, rkind, inplace, obs=None, receiver=None):
    m = STATE['m']
    out = outcome(exc)
    res, same = [], 0
    o = dict(obs or {})
    if out == 'ok':
        if rkind == 'obj' and m.kind_of(result) != '?':
            same = 1 if (receiver is not None and result is receiver) else 0
            res = [m.alloc(result)]
        elif rkind == 'objs' and isinstance(result, (list, tuple)) and all(m.kind_of(x) != '?' for x in result):
            res = [m.alloc(x) for x in result]
    a = dict(a)
    a['inplace'] = b(inplace)
    m.emit(opname, r, a, out, res, same, o)


def is_S(x):
    return isinstance(x, lib().AnsiString)


# ---- adapters: (self, args, kwargs) -> None (generic) or dict(op, a, rkind, inplace, obs(result)) ---------------
def bind(fn, self, args, kwargs):
    import inspect
    try:
        ba = inspect.signature(fn).bind(self, *args, **kwargs)
        ba.apply_defaults()
        return ba.arguments
    except TypeError:
        return None


def ad_apply(fn, self, args, kwargs):
    p = bind(fn, self, args, kwargs)
    if p is None or not isinstance(p['start'], int) or not (p['end'] is None or isinstance(p['end'], int)):
        return None
    S = scrub_texts(p['settings'])
    if S is None:
        return None
    return {'op': 'apply', 'a': {'S': STATE['m'].texts.tids(S), 'start': opt(p['start']), 'end': opt(p['end']), 'top': b(p['topmost'])},
            'rkind': 'none' if is_S(self) else 'obj', 'inplace': is_S(self)}


def ad_remove(fn, self, args, kwargs):
    p = bind(fn, self, args, kwargs)
    if p is None or not isinstance(p['start'], int) or not (p['end'] is None or isinstance(p['end'], int)):
        return None
    if p['settings'] is None:
        a = {'all': 1, 'Sel': []}
    else:
        S = scrub_texts(p['settings'])
        if S is None:
            return None
        a = {'all': 0, 'Sel': STATE['m'].texts.tids(S)}
    a.update({'start': opt(p['start']), 'end': opt(p['end'])})
    return {'op': 'remove', 'a': a, 'rkind': 'none' if is_S(self) else 'obj', 'inplace': is_S(self)}


def ad_getitem(fn, self, args, kwargs):
    v = args[0] if args else None
    if isinstance(v, int) and not isinstance(v, bool):
        return {'op': 'index', 'a': {'i': clamp(v)}, 'rkind': 'obj', 'inplace': False}
    if isinstance(v, slice) and v.step in (None, 1) and all(x is None or isinstance(x, int) for x in (v.start, v.stop)):
        return {'op': 'slice', 'a': {'start': opt(v.start), 'stop': opt(v.stop)}, 'rkind': 'obj', 'inplace': False}
    return None


def ad_add(fn, self, args, kwargs):
    if len(args) != 1 or STATE['m'].kind_of(args[0]) == '?':
        return None
    return {'op': 'add', 'a': {'other': reg(args[0])}, 'rkind': 'obj', 'inplace': False}


def ad_iadd(fn, self, args, kwargs):
    if len(args) != 1 or STATE['m'].kind_of(args[0]) == '?':
        return None
    return {'op': 'iadd', 'a': {'other': reg(args[0])}, 'rkind': 'obj', 'inplace': is_S(self)}


def ad_copy(fn, self, args, kwargs):
    return {'op': 'copy', 'a': {}, 'rkind': 'obj', 'inplace': False}


def ad_clear(fn, self, args, kwargs):
    return {'op': 'clear', 'a': {}, 'rkind': 'none' if is_S(self) else 'obj', 'inplace': is_S(self)}


def ad_render(how):
    def ad(fn, self, args, kwargs):
        p = bind(fn, self, args, kwargs)
        if p is None:
            return None
        spec = p.get('format_spec', p.get('_AnsiString__format_spec', p.get('_AnsiStr__format_spec', None))) if how != 'str' else None
        if spec:
            return None           # format specs are exercised by check C12's own driver
        fl = [b(p.get('optimize', True)), b(p.get('reset_start', False)), b(p.get('reset_end', True))] if how == 'to_str' else [1, 0, 1]
        x = self

        def obs(v):
            if not isinstance(v, str):
                return {}
            return {'out': cps(v), 'valid': b(x.is_formatting_valid()), 'parsable': b(x.is_formatting_parsable())}
        return {'op': 'render', 'a': {'how': how, 'spec': [], 'flags': fl, 'drift': 1}, 'rkind': 'scalar', 'inplace': False, 'obs': obs}
    return ad


def ad_pad(meth):
    def ad(fn, self, args, kwargs):
        p = bind(fn, self, args, kwargs)
        if p is None or not isinstance(p['width'], int):
            return None
        fill = p.get('fillchar', '0' if meth == 'zfill' else ' ')
        if not isinstance(fill, str):
            return None
        ip = bool(p.get('inplace', False)) and is_S(self)
        ext = p.get('extend_formatting', True)
        return {'op': 'pad', 'a': {'m': meth, 'width': clamp(p['width']), 'fill': cps(fill), 'extend': b(ext)}, 'rkind': 'obj',
                'inplace': ip, 'obs': lambda v: {'pyout': 'x', 'py': {'t': 'x', 'v': 0}}}
    return ad


ADAPTERS = {
    'apply_formatting': ad_apply, 'remove_formatting': ad_remove, '__getitem__': ad_getitem, '__add__': ad_add, '__iadd__': ad_iadd,
    'copy': ad_copy, 'clear_formatting': ad_clear, '__str__': ad_render('str'), 'to_str': ad_render('to_str'),
    'center': ad_pad('center'), 'ljust': ad_pad('ljust'), 'rjust': ad_pad('rjust'),
}

GENERIC = ['format_matching', 'unformat_matching', 'apply_formatting_for_match', 'simplify', 'assign_str', 'clip', 'strip', 'lstrip',
           'rstrip', 'partition', 'rpartition', 'removeprefix', 'removesuffix', 'replace', 'expandtabs', 'split', 'rsplit', 'splitlines',
           'capitalize', 'casefold', 'lower', 'upper', 'swapcase', 'title', 'zfill', 'find_settings', 'settings_at', 'ansi_settings_at',
           '__format__', '__iter__', 'set_ansi_str', 'encode', 'count', 'find', 'rfind', 'index', 'rindex', 'endswith', '__contains__',
           '__eq__', 'is_formatting_valid', 'is_formatting_parsable']


def wrap(cls, name):
    fn = cls.__dict__.get(name)
    if fn is None or isinstance(fn, (staticmethod, classmethod, property)):
        return
    adapter = ADAPTERS.get(name)

    @functools.wraps(fn)
    def wrapper(self, *args, **kwargs):
        if STATE['m'] is None or STATE['depth'] > 0:
            return fn(self, *args, **kwargs)
        STATE['depth'] += 1
        try:
            r = reg(self)
            spec = None
            try:
                spec = adapter(fn, self, args, kwargs) if adapter else None
            except Exception:
                spec = None
            exc, result = None, None
            try:
                result = fn(self, *args, **kwargs)
            except Exception as e:      # noqa
                exc = e
            if spec is None:
                ip = bool(kwargs.get('inplace', False)) or (is_S(self) and name in ('format_matching', 'unformat_matching', 'simplify',
                                                                                  'assign_str', 'apply_formatting_for_match', 'set_ansi_str'))
                rk = 'obj' if STATE['m'].kind_of(result) != '?' else ('objs' if isinstance(result, (list, tuple)) and result and
                                                                    all(STATE['m'].kind_of(x) != '?' for x in result) else 'none')
                record('call', r, {'name': name}, exc, result, rk, ip, receiver=self)
            else:
                obs = spec['obs'](result) if (spec.get('obs') and exc is None) else {}
                record(spec['op'], r, spec['a'], exc, result, spec['rkind'], spec['inplace'], obs, receiver=self)
            if exc is not None:
                raise exc
            return result
        finally:
            STATE['depth'] -= 1
    setattr(cls, name, wrapper)


def wrap_init(cls):
    orig = cls.__init__

    @functools.wraps(orig)
    def init(self, *args, **kwargs):
        if STATE['m'] is None or STATE['depth'] > 0:
            return orig(self, *args, **kwargs)
        STATE['depth'] += 1
        try:
            exc = None
            try:
                orig(self, *args, **kwargs)
            except Exception as e:      # noqa
                exc = e
            m = STATE['m']
            s = args[0] if args else kwargs.get('s', '')
            sets = args[1:]
            S = scrub_texts(list(sets)) if sets else []
            if exc is None and S is not None and (type(s) is str or m.kind_of(s) in ('S', 'A')):
                if type(s) is str:
                    a = {'cls': 'S', 'src': 0, 'text': cps(s), 'S': m.texts.tids(S)}
                else:
                    a = {'cls': 'S', 'src': reg(s), 'text': [], 'S': m.texts.tids(S)}
                record('new', 0, a, None, self, 'obj', False)
            elif exc is None:
                record('call', 0, {'name': '__init__'}, None, self, 'obj', False)
            if exc is not None:
                raise exc
        finally:
            STATE['depth'] -= 1
    cls.__init__ = init


def install():
    L = lib()
    L.AnsiString.WITH_ASSERTIONS = False
    for cls in (L.AnsiString, L.AnsiStr):
        for name in list(ADAPTERS) + GENERIC:
            wrap(cls, name)
    wrap_init(L.AnsiString)


# ---- pytest hooks ------------------------------------------------------------------------------------------------
def pytest_configure(config):
    STATE['texts'] = core.TextTable()
    install()


@pytest.hookimpl(hookwrapper=True)
def pytest_runtest_call(item):
    STATE['m'] = core.Machine(lib(), STATE['texts'], max_regs=400)
    STATE['depth'] = 0
    saved = lib().AnsiString.WITH_ASSERTIONS
    try:
        yield
    finally:
        m = STATE['m']
        STATE['m'] = None
        lib().AnsiString.WITH_ASSERTIONS = saved
        if m.events:
            STATE['n'] += 1
            STATE['traces'].append({'id': STATE['n'], 'name': item.nodeid, 'nregs': max(1, len(m.regs) - 1), 'ev': m.events})


def pytest_sessionfinish(session, exitstatus):
    out = os.environ.get('VERIF_TRACE_OUT')
    if out:
        with open(out, 'w') as f:
            json.dump({'texts': STATE['texts'].rows, 'traces': STATE['traces']}, f, separators=(',', ':'))
