"""Running TLC: trace validation batches and design-model runs; parsing its output."""
import json
import os
import re
import shutil
import subprocess
import tempfile
import time
from concurrent.futures import ThreadPoolExecutor

HERE = os.path.dirname(os.path.abspath(__file__))
SPEC = os.path.join(os.path.dirname(HERE), 'spec')
JAR_CP = '/opt/veriftools/tla/tla2tools.jar:/opt/veriftools/tla/CommunityModules-deps.jar'


class Machinery(Exception):
    """TLC crashed, output unparsable, trace without verdict: exit 2, never a VIOLATION."""


def scratch(prefix='verif-'):
    return tempfile.mkdtemp(prefix=prefix)


def tlc_cmd(module, cfg, workers, metadir, extra=(), heap='3g'):
    return ['java', '-XX:+UseParallelGC', '-Xmx' + heap, '-Xss64m', '-cp', JAR_CP, 'tlc2.TLC',
            '-workers', str(workers), '-metadir', metadir, '-noGenerateSpecTE', '-nowarning',
            '-config', cfg] + list(extra) + [module]


STATS_RE = re.compile(r'(\d+) states generated, (\d+) distinct states found')


def parse_stats(out):
    m = None
    for m in STATS_RE.finditer(out):
        pass
    if not m:
        return 0, 0
    return int(m.group(2)), int(m.group(1))     # distinct states, generated (= transitions explored)


def run_tlc(module, cfg, env=None, workers=1, extra=(), timeout=3600, heap='3g', cwd=SPEC):
    d = scratch('tlc-meta-')
    try:
        e = dict(os.environ)
        e.update(env or {})
        t0 = time.time()
        p = subprocess.run(tlc_cmd(module, cfg, workers, d, extra, heap), cwd=cwd, env=e,
                           stdout=subprocess.PIPE, stderr=subprocess.STDOUT, text=True, timeout=timeout)
        return p.returncode, p.stdout, time.time() - t0
    finally:
        shutil.rmtree(d, ignore_errors=True)


def parse_printed_json(out):
    """Lines printed by PrintT(ToJson(..)) are TLA+ string literals: "{\\"a\\":1}"."""
    rows = []
    for line in out.splitlines():
        line = line.strip()
        if line.startswith('"{') and line.endswith('}"'):
            try:
                rows.append(json.loads(json.loads(line)))
            except Exception:
                raise Machinery('unparsable verdict line: ' + line[:200])
    return rows


def validate_batch(traces, texts, module='TraceHistory', cfg='TraceHistory.cfg', workdir=None, timeout=3600):
    """traces: list of {id, nregs, ev}.  Returns (verdicts by id, states, transitions, wall_s)."""
    own = workdir is None
    d = workdir or scratch('verif-batch-')
    try:
        bf = os.path.join(d, 'batch.json')
        tf = os.path.join(d, 'texts.json')
        with open(bf, 'w') as f:
            json.dump(traces, f, separators=(',', ':'))
        with open(tf, 'w') as f:
            json.dump(texts if texts else [[48]], f, separators=(',', ':'))
        # run on a private snapshot of the specification so that concurrent edits of spec/ cannot break a running check
        snap = os.path.join(d, 'spec')
        os.makedirs(snap, exist_ok=True)
        for fn in os.listdir(SPEC):
            if fn.endswith('.tla') or fn.endswith('.cfg'):
                shutil.copy(os.path.join(SPEC, fn), os.path.join(snap, fn))
        rc, out, wall = run_tlc(module + '.tla', cfg, env={'VERIF_BATCH': bf, 'VERIF_TEXTS': tf}, timeout=timeout, cwd=snap)
        if 'Model checking completed. No error has been found.' not in out:
            lines = out.splitlines()
            first = next((i for i, l in enumerate(lines) if l.startswith('Error:')), max(0, len(lines) - 40))
            tail = '\n'.join(l[:600] for l in lines[first:first + 30])
            raise Machinery('TLC did not complete trace validation (rc=%s):\n%s' % (rc, tail))
        rows = parse_printed_json(out)
        verdicts = {r['tid']: r for r in rows}
        missing = [t['id'] for t in traces if t['id'] not in verdicts]
        if missing:
            raise Machinery('traces without verdict: %s' % missing[:5])
        states, trans = parse_stats(out)
        return verdicts, states, trans, wall
    finally:
        if own:
            shutil.rmtree(d, ignore_errors=True)


def validate_sharded(traces, texts, shards=8, **kw):
    """Split a campaign over several JVMs (TLC's JSON loading dominates; each JVM runs -workers 1)."""
    if not traces:
        return {}, 0, 0, 0.0
    shards = max(1, min(shards, len(traces)))
    parts = [traces[i::shards] for i in range(shards)]
    t0 = time.time()
    with ThreadPoolExecutor(max_workers=shards) as ex:
        results = list(ex.map(lambda p: validate_batch(p, texts, **kw), parts))
    verdicts, states, trans = {}, 0, 0
    for v, s, t, _ in results:
        verdicts.update(v)
        states += s
        trans += t
    return verdicts, states, trans, time.time() - t0
