"""C11/C10 exhaustive small-scope family: every text over {a, b} up to a length, a distinct setting on every
character, every separator/pattern up to length 2, counts/maxsplits -1..2 - for split, rsplit, partition, rpartition,
replace (plain and formatted replacement, reused for every match), strip and removeprefix/removesuffix."""
import itertools

from .history import Gen, W_BASE
from .funcs import nth_word

SEPS = ['a', 'b', 'ab', 'ba', 'aa', 'bb']


def gen_text_family(m, rng, job):
    g = Gen(m, rng, W_BASE)
    idx = job['base'] - 1 + job['_k']
    m.max_regs = 200
    sep_list = [SEPS[idx % len(SEPS)]]
    text = ''.join(nth_word(['a', 'b'], idx // len(SEPS)))
    e = g.do({'op': 'new', 'cls': 'S', 'text': text, 'sets': [], 'S': []})
    r = e['res'][0]
    for i in range(len(text)):
        c = '38;5;%d' % (i + 1)
        g.do({'op': 'apply', 'r': r, 'sets': [{'k': 'aset', 'v': c}], 'S': [c], 'start': i, 'end': i + 1, 'top': True})
    plus = g.do({'op': 'lit', 'text': '+'})['res'][0]
    fplus = g.do({'op': 'new', 'cls': 'S', 'text': '+-', 'sets': [{'k': 'aset', 'v': '1'}], 'S': ['1']})['res'][0]
    for sep in sep_list:
        for mx in (-1, 0, 1, 2):
            for meth in ('split', 'rsplit'):
                g.do({'op': 'split', 'r': r, 'm': meth, 'sep': sep, 'maxsplit': mx})
        for meth in ('partition', 'rpartition'):
            g.do({'op': 'partition', 'r': r, 'm': meth, 'sep': sep})
        for cnt in (-1, 1, 2):
            g.do({'op': 'replace', 'r': r, 'old': sep, 'new': plus, 'count': cnt})
            g.do({'op': 'replace', 'r': r, 'old': sep, 'new': fplus, 'count': cnt})
        g.do({'op': 'rmfix', 'r': r, 'm': 'removeprefix', 's': sep})
        g.do({'op': 'rmfix', 'r': r, 'm': 'removesuffix', 's': sep})
    if sep_list[0] in ('a', 'b', 'ab'):
        for meth in ('strip', 'lstrip', 'rstrip'):
            g.do({'op': 'strip', 'r': r, 'm': meth, 'chars': sep_list[0]})
    return g.oplist, {}
