"""Random histories of public calls over a small alphabet/palette, biased to the shapes the property texts
name (bounds on/next to change points, equal overlapping settings, conflicting settings spanning a range
end, self-concatenation, mutation after copy/slice, ...).  The generator drives the real objects while it
generates (so bounds can be placed relative to actual lengths); the op list it returns is the replay format.
"""
from .. import ops

HUGE = (1 << 31) + 5

# (form, declared denotation): the denotations are written by hand here, independently of the library;
# check C14 validates the library's reading of these forms against the spec's Den().
PAL_CORE = [
    ({'k': 'fmt', 'v': 'BOLD'}, ['1']),
    ({'k': 'str', 'v': 'bold'}, ['1']),
    ({'k': 'fmt', 'v': 'NO_BOLD_FAINT'}, ['22']),
    ({'k': 'fmt', 'v': 'FG_RED'}, ['31']),
    ({'k': 'str', 'v': 'red'}, ['31']),
    ({'k': 'fmt', 'v': 'FG_BLUE'}, ['34']),
    ({'k': 'int', 'v': 34}, ['34']),
]
PAL_MORE = [
    ({'k': 'fmt', 'v': 'FAINT'}, ['2']),
    ({'k': 'fmt', 'v': 'ITALIC'}, ['3']),
    ({'k': 'fmt', 'v': 'UNDERLINE'}, ['4']),
    ({'k': 'fmt', 'v': 'BG_GREEN'}, ['42']),
    ({'k': 'fmt', 'v': 'FG_DEFAULT'}, ['39']),
    ({'k': 'fmt', 'v': 'ORANGE'}, ['38;5;214']),
    ({'k': 'call', 'fn': 'rgb', 'v': [1, 2, 3]}, ['38;2;1;2;3']),
    ({'k': 'call', 'fn': 'bg_color256', 'v': [7]}, ['48;5;7']),
    ({'k': 'fmt', 'v': 'UL_RED'}, ['4', '58;5;9']),
    ({'k': 'str', 'v': 'bold;red'}, ['1', '31']),
    ({'k': 'aset', 'v': '31'}, ['31']),
    ({'k': 'int', 'v': 0}, ['0']),
    ({'k': 'aset_astr', 'v': '1'}, ['1']),
    ({'k': 'str_astr', 'v': 'bold'}, ['1']),
    ({'k': 'str_astr', 'v': '1;31'}, ['1', '31']),
    ({'k': 'aset_astr', 'v': '38;5;9'}, ['38;5;9']),
    ({'k': 'str', 'v': 'rgb(10,20,30)'}, ['38;2;10;20;30']),
    ({'k': 'str', 'v': 'bg_color256(7)'}, ['48;5;7']),
    ({'k': 'str', 'v': 'rgb(0xFF0000)'}, ['38;2;255;0;0']),
]
# less common effect groups and codes, thresholds of the colour arguments
PAL_RARE = [
    ({'k': 'fmt', 'v': 'FRAMED'}, ['51']), ({'k': 'fmt', 'v': 'ENCIRCLED'}, ['52']), ({'k': 'fmt', 'v': 'NO_FRAMED_ENCIRCLED'}, ['54']),
    ({'k': 'fmt', 'v': 'OVERLINED'}, ['53']), ({'k': 'fmt', 'v': 'NO_OVERLINED'}, ['55']),
    ({'k': 'fmt', 'v': 'PROPORTIONAL_SPACING'}, ['26']), ({'k': 'fmt', 'v': 'NO_PROPORTIONAL_SPACING'}, ['50']),
    ({'k': 'fmt', 'v': 'ALT_FONT_3'}, ['13']), ({'k': 'fmt', 'v': 'GOTHIC_FONT'}, ['20']), ({'k': 'fmt', 'v': 'DEFAULT_FONT'}, ['10']),
    ({'k': 'fmt', 'v': 'SLOW_BLINK'}, ['5']), ({'k': 'fmt', 'v': 'RAPID_BLINK'}, ['6']), ({'k': 'fmt', 'v': 'NO_BLINK'}, ['25']),
    ({'k': 'fmt', 'v': 'HIDE'}, ['8']), ({'k': 'fmt', 'v': 'NO_HIDE'}, ['28']), ({'k': 'fmt', 'v': 'SWAP_BG_FG'}, ['7']),
    ({'k': 'fmt', 'v': 'NO_SWAP_BG_FG'}, ['27']), ({'k': 'fmt', 'v': 'CROSSED_OUT'}, ['9']), ({'k': 'fmt', 'v': 'NO_CROSSED_OUT'}, ['29']),
    ({'k': 'fmt', 'v': 'DOUBLE_UNDERLINE'}, ['21']), ({'k': 'fmt', 'v': 'NO_UNDERLINE'}, ['24']), ({'k': 'fmt', 'v': 'NO_ITALIC'}, ['23']),
    ({'k': 'fmt', 'v': 'FG_BRIGHT_WHITE'}, ['97']), ({'k': 'fmt', 'v': 'BG_BRIGHT_WHITE'}, ['107']), ({'k': 'fmt', 'v': 'BG_BRIGHT_BLACK'}, ['100']),
    ({'k': 'fmt', 'v': 'FG_BRIGHT_BLACK'}, ['90']), ({'k': 'fmt', 'v': 'BG_DEFAULT'}, ['49']), ({'k': 'fmt', 'v': 'DEFAULT_UNDERLINE_COLOR'}, ['59']),
    ({'k': 'call', 'fn': 'color256', 'v': [9]}, ['38;5;9']), ({'k': 'call', 'fn': 'color256', 'v': [10]}, ['38;5;10']),
    ({'k': 'call', 'fn': 'color256', 'v': [16]}, ['38;5;16']), ({'k': 'call', 'fn': 'color256', 'v': [100]}, ['38;5;100']),
    ({'k': 'call', 'fn': 'color256', 'v': [255]}, ['38;5;255']), ({'k': 'call', 'fn': 'bg_color256', 'v': [128]}, ['48;5;128']),
    ({'k': 'call', 'fn': 'ul_color256', 'v': [200]}, ['4', '58;5;200']), ({'k': 'call', 'fn': 'dul_rgb', 'v': [255, 0, 128]}, ['21', '58;2;255;0;128']),
    ({'k': 'call', 'fn': 'rgb', 'v': [255, 255, 255]}, ['38;2;255;255;255']), ({'k': 'call', 'fn': 'bg_rgb', 'v': [0, 0, 0]}, ['48;2;0;0;0']),
    ({'k': 'call', 'fn': 'rgb', 'v': [100, 16, 9]}, ['38;2;100;16;9']),
    ({'k': 'tuple', 'v': [{'k': 'fmt', 'v': 'BOLD'}, {'k': 'fmt', 'v': 'FG_RED'}]}, ['1', '31']),
    ({'k': 'tuple', 'v': [{'k': 'int', 'v': 38}, {'k': 'int', 'v': 5}, {'k': 'int', 'v': 214}]}, ['38;5;214']),
    ({'k': 'list', 'v': [{'k': 'tuple', 'v': [{'k': 'str', 'v': 'italic'}]}, {'k': 'int', 'v': 4}]}, ['3', '4']),
]

PAL_ODD = [
    ({'k': 'verb', 'v': '1;31'}, ['1;31']),
    ({'k': 'aset', 'v': 'x'}, ['x']),
    ({'k': 'verb', 'v': '1A'}, ['1A']),
    ({'k': 'aset', 'v': 'not ok'}, ['not ok']),
    ({'k': 'verb', 'v': '38;5'}, ['38;5']),
    ({'k': 'verb', 'v': '0'}, ['0']),
    ({'k': 'int', 'v': 0}, ['0']),
    ({'k': 'verb', 'v': '38;5;256'}, ['38;5;256']),
    ({'k': 'verb', 'v': '4:3'}, ['4:3']),
    ({'k': 'verb', 'v': '1; 31'}, ['1; 31']),
    ({'k': 'aset', 'v': '38:2::255:100:0'}, ['38:2::255:100:0']),
    ({'k': 'int', 'v': 73}, ['73']),
    ({'k': 'int', 'v': 56}, ['56']),
    ({'k': 'str', 'v': '74'}, ['74']),
]
# forms that denote no setting at all
PAL_EMPTY = [
    {'k': 'str', 'v': ';'}, {'k': 'str', 'v': ''}, {'k': 'list', 'v': [{'k': 'str', 'v': ''}]},
    {'k': 'list', 'v': [{'k': 'list', 'v': []}]}, {'k': 'tuple', 'v': []},
]

ALPHA = 'ab -'


def rough_group(text):
    """Driver-side heuristic only (used to steer generation towards conflicting settings, never for verdicts)."""
    try:
        c = int(text.split(';')[0])
    except ValueError:
        return text
    for lo, hi, g in ((1, 2, 'b'), (22, 22, 'b'), (3, 3, 'i'), (23, 23, 'i'), (4, 4, 'u'), (21, 21, 'u'), (24, 24, 'u'), (30, 39, 'f'),
                      (90, 97, 'f'), (40, 49, 'g'), (100, 107, 'g'), (58, 59, 'c')):
        if lo <= c <= hi:
            return g
    return str(c)


class Gen:
    def __init__(self, m, rng, weights, maxlen=8, odd=0.0, more=0.3, anstr=0.15, alpha=None):
        self.m, self.rng, self.w = m, rng, weights
        self.alpha = alpha or ALPHA
        self.ctrl = 0.0
        self.rare = 0.12          # share of settings from the less common groups / threshold colour arguments
        self.long = 0.03          # share of texts that are long (beyond 9, 16, 100 characters)
        # a few favourite forms per history: the same member/name applied again and again (shared objects, equal
        # overlapping settings) is what several defects need
        self.fav = [rng.choice(PAL_CORE + PAL_MORE[:6] + ([rng.choice(PAL_RARE[:28])] if rng.random() < 0.3 else [])) for _ in range(2)]
        self.maxlen, self.odd, self.more, self.anstr = maxlen, odd, more, anstr
        self.oplist = []

    # -- helpers -----------------------------------------------------------------------------------
    def do(self, o):
        self.oplist.append(o)
        return ops.run(self.m, o)

    WIDE = ['\u00e9', '\u4e2d', '\U0001f600', 'e\u0301', '\u200b', '\u00df', '\u0130', '\u01c5']

    def text(self, lo=0):
        n = self.rng.randint(lo, self.maxlen)
        x = self.rng.random()
        if x < self.long:
            n = self.rng.choice([10, 11, 16, 17, 25, 40])
        elif x < self.long * 1.2:
            n = self.rng.choice([100, 101])
        t = ''.join(self.rng.choice(self.alpha) for _ in range(n))
        if self.rng.random() < 0.04 and t:
            k = self.rng.randrange(len(t))
            t = t[:k] + self.rng.choice(self.WIDE) + t[k + 1:]
        if self.ctrl and self.rng.random() < self.ctrl:
            # a non-SGR control sequence kept as text (pieces may end inside it)
            k = self.rng.randint(0, len(t))
            t = t[:k] + self.rng.choice(['\x1b[12;40H', '\x1b[2K', '\x1b[5A']) + t[k:]
        return t

    def setting(self):
        x = self.rng.random()
        if x < self.odd:
            return self.rng.choice(PAL_ODD)
        if self.rng.random() < 0.35:
            return self.rng.choice(self.fav)
        if self.rng.random() < self.rare:
            return self.rng.choice(PAL_RARE)
        if x < self.odd + self.more:
            return self.rng.choice(PAL_MORE)
        return self.rng.choice(PAL_CORE)

    def settings(self, kmax=2):
        k = 1 if self.rng.random() < 0.7 else self.rng.randint(1, kmax)
        forms, S = [], []
        if self.odd and self.rng.random() < self.odd / 2:
            # several odd (invalid / unparsable) settings side by side
            for f, d in self.rng.sample(PAL_ODD, self.rng.randint(2, 3)):
                forms.append(f)
                S += d
            return forms, S
        for _ in range(k):
            f, d = self.setting()
            forms.append(f)
            S += d
        if self.rng.random() < 0.04:
            forms.insert(self.rng.randint(0, len(forms)), self.rng.choice(PAL_EMPTY))
        return forms, S

    def regs_of(self, kinds):
        return [i for i in range(1, len(self.m.regs)) if self.m.kinds[i] in kinds]

    def pick(self, kinds='SA'):
        c = self.regs_of(kinds)
        return self.rng.choice(c) if c else 0

    def length(self, r):
        return len(self.m.snaps[r]['t']) if self.m.snaps[r] else 0

    def change_points(self, r):
        s = self.m.snaps[r]['s']
        return [i for i in range(1, len(s)) if s[i] != s[i - 1]]

    def bound(self, r, none_ok=True):
        n = self.length(r)
        x = self.rng.random()
        if none_ok and x < 0.12:
            return None
        if x < 0.2:
            return self.rng.choice([HUGE, -HUGE, n + 1, n + 2, -n - 1, -n - 2, n + 7])
        cp = self.change_points(r)
        if cp and x < 0.62:
            c = self.rng.choice(cp) + self.rng.choice([-1, 0, 0, 1])
            return c if self.rng.random() < 0.8 else c - n
        return self.rng.randint(-n, n)

    def room(self, k=1):
        # soft limit; long texts make every re-projection expensive, so histories holding one stay small
        big = any(sn and len(sn['t']) > 60 for sn in self.m.snaps[1:])
        return len(self.m.regs) + k < (16 if big else self.m.max_regs)

    # -- op generators -----------------------------------------------------------------------------
    def g_new(self):
        cls = 'A' if self.rng.random() < self.anstr else 'S'
        forms, S = self.settings() if self.rng.random() < 0.7 else ([], [])
        self.do({'op': 'new', 'cls': cls, 'text': self.text(), 'sets': forms, 'S': S})

    def g_new_from(self):
        r = self.pick()
        if not r:
            return
        cls = 'A' if self.rng.random() < 0.4 else 'S'
        forms, S = self.settings() if self.rng.random() < 0.5 else ([], [])
        self.do({'op': 'new', 'cls': cls, 'src': r, 'sets': forms, 'S': S})

    def g_apply(self):
        r = self.pick()
        if not r:
            return
        forms, S = self.settings()
        o = {'op': 'apply', 'r': r, 'sets': forms, 'S': S, 'start': self.bound(r, False) if self.rng.random() < 0.8 else 0,
             'end': self.bound(r), 'top': self.rng.random() < 0.55}
        if self.rng.random() < 0.06:
            n = self.length(r)
            k = self.rng.randint(0, n)
            o['start'], o['end'] = self.rng.choice([(0, 0), (k, k), (n, n), (0, -n), (k, k - 1), (n + 2, None), (-1, -1)])
        if self.rng.random() < 0.1:
            o['sets'], o['S'] = [], []
        elif len(forms) == 1 and self.rng.random() < 0.3:
            o['single'] = True          # the bare form (a member, a name, an int - including 0) instead of a list
        self.do(o)

    def g_apply_match(self):
        r = self.pick()
        if not r or not self.room(2):
            return
        forms, S = self.settings()
        pat, grp = self.rng.choice([('a', 0), ('(a)(b)?', 2), ('(a+)|(b+)', 1), ('b(-| )', 1), ('[ab]+', 0), ('x', 0), ('(a)|b', 1)])
        self.do({'op': 'apply_match', 'r': r, 'pat': pat, 'group': grp, 'sets': forms, 'S': S})

    def g_eq(self):
        r, o = self.pick('S'), self.pick('S')
        if r and o:
            self.do({'op': 'eq', 'r': r, 'other': o if self.rng.random() < 0.8 else r})

    def g_remove(self):
        r = self.pick()
        if not r:
            return
        o = {'op': 'remove', 'r': r, 'start': self.bound(r, False) if self.rng.random() < 0.8 else 0, 'end': self.bound(r)}
        if self.rng.random() < 0.1:
            # an EMPTY range spelled in every way (end = 0 is not "no end"): the call must change nothing
            n = self.length(r)
            k = self.rng.randint(0, n)
            o['start'], o['end'] = self.rng.choice([(0, 0), (0, 0), (k, k), (n, n), (0, -n), (k, k - 1), (n + 2, None), (-1, -1)])
        x = self.rng.random()
        if x < 0.27:
            o['all'] = True
        elif x < 0.32:
            o['sets'], o['S'] = [self.rng.choice(PAL_EMPTY)], []
        else:
            # prefer settings that are actually present
            present = sorted({tuple(self.m.texts.rows[t - 1]) for row in self.m.snaps[r]['s'] for (_, t) in row})
            cands = [(f, d) for (f, d) in PAL_CORE + PAL_MORE + PAL_ODD[5:8] if len(d) == 1 and tuple(map(ord, d[0])) in present]
            if len(cands) >= 2 and self.rng.random() < 0.25:
                (f1, d1), (f2, d2) = self.rng.sample(cands, 2)
                o['sets'], o['S'] = [f1, f2], list(d1) + list(d2)
                if self.rng.random() < 0.5:
                    o['start'], o['end'] = 0, None
            elif cands and self.rng.random() < 0.8:
                f, d = self.rng.choice(cands)
                o['sets'], o['S'] = [f], list(d)
            else:
                o['sets'], o['S'] = self.settings()
            if len(o['sets']) == 1 and self.rng.random() < 0.3:
                o['single'] = True
        self.do(o)

    def g_remove_edge(self):
        """Remove a setting from a range that ends exactly where another setting begins while the removed one continues
        (the restart at the range end must keep the precedence of both)."""
        r = self.pick()
        if not r:
            return
        sn = self.m.snaps[r]['s']
        cands = []
        for j in range(1, len(sn)):
            prev = {i for i, _ in sn[j - 1]}
            begins = [x for x in sn[j] if x[0] not in prev]
            spanning = [x for x in sn[j] if x[0] in prev]
            if begins and spanning:
                tx = lambda t: ''.join(chr(c) for c in self.m.texts.rows[t - 1])
                bg = {rough_group(tx(t)) for _, t in begins}
                conf = [x for x in spanning if rough_group(tx(x[1])) in bg]
                if conf:
                    cands.append((j, conf))
                    cands.append((j, conf))
                cands.append((j, spanning))
        if not cands:
            # build the situation: A over a wide range, a conflicting B beginning inside it, then remove A up to B's start
            n = len(sn)
            if n < 3 or self.m.kinds[r] != 'S':
                return self.g_remove()
            pairs = [('31', '34'), ('34', '31'), ('1', '22'), ('22', '1'), ('31', '38;5;214'), ('4', '21'), ('1', '1'), ('31', '31')]
            a_, b_ = self.rng.choice(pairs)
            j = self.rng.randint(1, n - 1)
            k = self.rng.randint(j + 1, n)
            lo = self.rng.randint(0, j - 1)
            self.do({'op': 'apply', 'r': r, 'sets': [{'k': 'aset', 'v': a_}], 'S': [a_], 'start': lo, 'end': self.rng.choice([None, n, k]), 'top': True})
            self.do({'op': 'apply', 'r': r, 'sets': [{'k': 'aset', 'v': b_}], 'S': [b_], 'start': j, 'end': k, 'top': self.rng.random() < 0.8})
            if self.rng.random() < 0.3:
                self.do({'op': 'remove', 'r': r, 'all': True, 'start': self.rng.randint(lo, j - 1), 'end': j})
            else:
                self.do({'op': 'remove', 'r': r, 'sets': [{'k': 'aset', 'v': a_}], 'S': [a_], 'start': self.rng.randint(lo, j - 1), 'end': j})
            return
        j, spanning = self.rng.choice(cands)
        inst, tid = self.rng.choice(spanning)
        text = ''.join(chr(c) for c in self.m.texts.rows[tid - 1])
        first = j - 1
        while first > 0 and any(i == inst for i, _ in sn[first - 1]):
            first -= 1
        start = self.rng.randint(first, j - 1)
        if self.rng.random() < 0.25:
            self.do({'op': 'remove', 'r': r, 'all': True, 'start': start, 'end': j})
        else:
            self.do({'op': 'remove', 'r': r, 'sets': [{'k': 'aset', 'v': text}], 'S': [text], 'start': start, 'end': j})

    def g_restart_leftover(self):
        """A setting applied underneath (topmost=False) inside formatted text and removed again leaves a stop+restart of
        the older settings behind; a later topmost apply across that index must still come out on top."""
        r = self.pick('S')
        if not r:
            return
        n = self.length(r)
        if n < 3:
            return
        pairs = [('31', '34'), ('34', '31'), ('1', '22'), ('31', '1'), ('4', '34')]
        a_, b_ = self.rng.choice(pairs)
        j = self.rng.randint(1, n - 1)
        k = self.rng.randint(j + 1, n)
        if self.rng.random() < 0.6:
            self.do({'op': 'apply', 'r': r, 'sets': [{'k': 'aset', 'v': a_}], 'S': [a_], 'start': 0, 'end': None, 'top': True})
        self.do({'op': 'apply', 'r': r, 'sets': [{'k': 'aset', 'v': b_}], 'S': [b_], 'start': j, 'end': k, 'top': False})
        if self.rng.random() < 0.5:
            self.do({'op': 'remove', 'r': r, 'sets': [{'k': 'aset', 'v': b_}], 'S': [b_], 'start': self.rng.randint(0, j), 'end': self.rng.choice([None, k, n])})
        else:
            self.do({'op': 'remove', 'r': r, 'sets': [{'k': 'aset', 'v': b_}], 'S': [b_], 'start': j, 'end': k})
        c_ = self.rng.choice(['31', '34', '1', '22', '42'])
        self.do({'op': 'apply', 'r': r, 'sets': [{'k': 'aset', 'v': c_}], 'S': [c_], 'start': self.rng.randint(0, j - 1),
                 'end': self.rng.choice([None, n, k]), 'top': True})

    def g_seam_order(self):
        """Both operands carry the same set of conflicting settings at the seam, stacked in a different order."""
        if not self.room(4):
            return
        pairs = [('31', '34'), ('1', '22'), ('41', '42'), ('31', '1')]
        x, y = self.rng.choice(pairs)
        a = self.do({'op': 'new', 'cls': 'S', 'text': self.text(1), 'sets': [{'k': 'aset', 'v': x}, {'k': 'aset', 'v': y}], 'S': [x, y]})['res'][0]
        order = [y, x] if self.rng.random() < 0.7 else [x, y]
        b_ = self.do({'op': 'new', 'cls': self.rng.choice('SSA'), 'text': self.text(1), 'sets': [{'k': 'aset', 'v': c} for c in order], 'S': order})['res'][0]
        op_ = self.rng.choice(['add', 'iadd', 'join'])
        if op_ == 'join':
            self.do({'op': 'join', 'cls': 'S', 'items': [a, b_]})
        else:
            self.do({'op': op_, 'r': a, 'other': b_})

    def g_crossed_stops(self):
        """A value whose stop list at some index names its settings in another order than they are stacked: an inner
        range first, then an outer range (earlier start, same end) on top of it."""
        r = self.pick('S')
        if not r or self.length(r) < 2:
            return
        n = self.length(r)
        x, y = self.rng.choice([('32', '31'), ('31', '34'), ('1', '22'), ('41', '42'), ('4', '24'), ('31', '1'), ('3', '9')])
        e = self.rng.randint(2, n)
        j = self.rng.randint(1, e - 1)
        i = self.rng.randint(0, j - 1)
        self.do({'op': 'apply', 'r': r, 'sets': [{'k': 'aset', 'v': x}], 'S': [x], 'start': j, 'end': e, 'top': True})
        self.do({'op': 'apply', 'r': r, 'sets': [{'k': 'aset', 'v': y}], 'S': [y], 'start': i, 'end': e, 'top': self.rng.random() < 0.8})

    def g_empty_accumulator(self):
        """An EMPTY value accumulates other values (s = AnsiString(); s += a; s += b, or join('', a, b)); afterwards the
        absorbed values are used again: they must not have been tied to the accumulator."""
        if not self.room(8):
            return
        a = self.pick('S') or self.do({'op': 'new', 'cls': 'S', 'text': self.text(1), 'sets': [{'k': 'aset', 'v': '31'}], 'S': ['31']})['res'][0]
        forms, S = self.settings()
        b_ = self.do({'op': 'new', 'cls': self.rng.choice('SSA'), 'text': self.text(1), 'sets': forms, 'S': S})['res'][0]
        if self.rng.random() < 0.5:
            acc = self.do({'op': 'new', 'cls': 'S', 'text': '', 'sets': [], 'S': []})['res'][0]
            self.do({'op': 'iadd', 'r': acc, 'other': a})
            self.do({'op': 'iadd', 'r': acc, 'other': b_})
        else:
            e = self.do({'op': 'lit', 'text': ''})['res'][0]
            self.do({'op': 'join', 'cls': self.rng.choice('SA'), 'items': [e, a, b_]})
        self.probe_closed(a, 'probe_closed')
        if self.m.kinds[a] == 'S' and self.rng.random() < 0.5:
            self.do({'op': 'add', 'r': a, 'other': b_})

    def g_seam_stop_order(self):
        """The left operand closes two conflicting settings at its end in an order that differs from their precedence
        (the outer one was applied later, on top, from an earlier start); the right operand opens with the same two
        settings spelled in the order of the left operand's stop list."""
        if not self.room(4):
            return
        x, y = self.rng.choice([('32', '31'), ('31', '34'), ('1', '22'), ('41', '42'), ('4', '24'), ('31', '1')])
        n = self.rng.randint(2, 4)
        a = self.do({'op': 'new', 'cls': 'S', 'text': self.text(n), 'sets': [], 'S': []})['res'][0]
        j = self.rng.randint(1, n - 1)
        i = self.rng.randint(0, j - 1)
        end = self.rng.choice([None, n, n + 3])
        self.do({'op': 'apply', 'r': a, 'sets': [{'k': 'aset', 'v': x}], 'S': [x], 'start': j, 'end': end, 'top': True})
        self.do({'op': 'apply', 'r': a, 'sets': [{'k': 'aset', 'v': y}], 'S': [y], 'start': i, 'end': end, 'top': True})
        order = [x, y] if self.rng.random() < 0.75 else [y, x]
        b_ = self.do({'op': 'new', 'cls': self.rng.choice('SSA'), 'text': self.text(self.rng.randint(1, 3)),
                      'sets': [{'k': 'aset', 'v': c} for c in order], 'S': order})['res'][0]
        op_ = self.rng.choice(['add', 'iadd', 'join'])
        if op_ == 'join':
            self.do({'op': 'join', 'cls': 'S', 'items': [a, b_]})
        else:
            self.do({'op': op_, 'r': a, 'other': b_})

    def g_bottom_at_begin(self):
        """topmost=False starting exactly where another setting begins, underneath a conflicting setting that began earlier."""
        r = self.pick('S')
        if not r or self.length(r) < 4:
            return
        n = self.length(r)
        x, y = self.rng.choice([('31', '34'), ('34', '31'), ('1', '22'), ('41', '42')])
        j = self.rng.randint(1, n - 2)
        self.do({'op': 'apply', 'r': r, 'sets': [{'k': 'aset', 'v': x}], 'S': [x], 'start': 0, 'end': self.rng.choice([None, n]), 'top': True})
        other = self.rng.choice(['1', '3', '4', '9'])
        self.do({'op': 'apply', 'r': r, 'sets': [{'k': 'aset', 'v': other}], 'S': [other], 'start': j, 'end': self.rng.randint(j + 1, n), 'top': True})
        extra = self.rng.choice([[], ['3'], ['53']])
        S = extra + [y] if self.rng.random() < 0.5 else [y] + extra
        if self.rng.random() < 0.5 and all(';' not in c for c in S):
            forms = [{'k': 'str', 'v': ';'.join(S)}]          # one spec that expands to several settings
            if self.rng.random() < 0.5:
                forms = forms[0]
        else:
            forms = [{'k': 'aset', 'v': c} for c in S]
        o = {'op': 'apply', 'r': r, 'sets': forms if isinstance(forms, list) else [forms], 'S': S, 'start': j, 'end': self.rng.randint(j + 1, n), 'top': False}
        if not isinstance(forms, list):
            o['single'] = True
        self.do(o)

    def g_same_form_nested(self):
        """The same spelling applied on a wide range and again on an inner range, with a conflicting setting in between."""
        r = self.pick('S')
        if not r or self.length(r) < 4:
            return
        n = self.length(r)
        f, d = self.rng.choice([c for c in PAL_CORE + PAL_MORE if len(c[1]) == 1])
        conflicts = {'1': '22', '22': '1', '31': '34', '34': '31', '2': '1', '3': '23', '4': '24', '42': '41', '39': '31', '38;5;214': '31',
                     '38;2;1;2;3': '34', '48;5;7': '41', '38;2;10;20;30': '34', '38;2;255;0;0': '34'}
        g_ = conflicts.get(d[0], '34')
        self.do({'op': 'apply', 'r': r, 'sets': [f], 'S': d, 'start': 0, 'end': None, 'top': True})
        self.do({'op': 'apply', 'r': r, 'sets': [{'k': 'aset', 'v': g_}], 'S': [g_], 'start': self.rng.choice([0, 1]), 'end': self.rng.choice([None, n - 1]), 'top': True})
        a_ = self.rng.randint(1, n - 2)
        self.do({'op': 'apply', 'r': r, 'sets': [f], 'S': d, 'start': a_, 'end': self.rng.randint(a_ + 1, n - 1), 'top': True})
        if n <= 8 and self.room(n + 3) and self.rng.random() < 0.5:
            e = self.do({'op': 'iter', 'r': r})
            if e['out'] == 'ok' and e['res'] and self.rng.random() < 0.5:
                self.do({'op': 'join', 'cls': 'S', 'items': e['res'], 'tag': 'rejoin_iter:%d' % r})

    def g_pad_huge(self):
        r = self.pick()
        if r and self.length(r) <= 12:
            meth = self.rng.choice(['ljust', 'rjust', 'center', 'zfill'])
            self.do({'op': 'pad_huge', 'r': r, 'm': meth, 'width': self.rng.choice([1000, 4096, 65536, 100001]),
                     'fill': self.rng.choice([' ', '*', '0']), 'extend': self.rng.random() < 0.6})

    def g_pad_overflow(self):
        """A width that does not fit a machine index (str raises OverflowError) or that fits but cannot be built (MemoryError): the library
        must raise the same error and leave the receiver as it was."""
        r = self.pick('S')
        if r:
            self.do({'op': 'pad', 'r': r, 'm': self.rng.choice(['rjust', 'ljust', 'center', 'zfill']), 'width': self.rng.choice([2 ** 63, 2 ** 62]) + self.rng.randint(1, 9),
                     'fill': self.rng.choice(['*', ' ']), 'extend': self.rng.random() < 0.5, 'inplace': self.rng.random() < 0.7})

    def g_fmt_huge(self):
        r = self.pick()
        if r:
            self.do({'op': 'fmt_huge', 'r': r, 'spec': self.rng.choice(['>99999999999999999999', '*<99999999999999999999:red', '99999999999999999999', '^9223372036854775808'])})

    def g_pad_pair(self):
        """Two different justifications of the same object with the same width and fill."""
        r = self.pick()
        if not r or not self.room(4):
            return
        n = self.length(r)
        w = n + self.rng.randint(1, 4)
        fill = self.rng.choice([None, '*', '0'])
        for meth in self.rng.sample(['ljust', 'rjust', 'center', 'zfill'], 2):
            o = {'op': 'pad', 'r': r, 'm': meth, 'width': w}
            if meth != 'zfill' and fill is not None:
                o['fill'] = fill
            self.do(o)

    def g_grow_then_slice(self):
        """Look at a value (slice / index / iterate), grow it in place (ljust or assign_str), look again at the new tail."""
        r = self.pick('S')
        if not r or not self.room(8) or self.length(r) < 1 or self.length(r) > 7:
            return
        n = self.length(r)
        look = self.rng.choice(['slice', 'index', 'iter'])
        if look == 'slice':
            self.do({'op': 'slice', 'r': r, 'start': self.rng.randint(0, n - 1), 'stop': None})
        elif look == 'index':
            self.do({'op': 'index', 'r': r, 'i': -1})
        elif self.room(n + 6):
            self.do({'op': 'iter', 'r': r})
        self.do({'op': 'ansi_settings_at', 'r': r, 'i': n - 1})
        k = self.rng.randint(1, 3)
        if self.rng.random() < 0.5:
            self.do({'op': 'pad', 'r': r, 'm': 'ljust', 'width': n + k, 'inplace': True, 'extend': True})
        else:
            self.do({'op': 'assign_str', 'r': r, 'text': self.base_text(r) + 'xyz'[:k]})
        if not self.room(4):
            return
        self.do({'op': 'index', 'r': r, 'i': -1})
        self.do({'op': 'slice', 'r': r, 'start': n - 1, 'stop': None})
        self.do({'op': 'ansi_settings_at', 'r': r, 'i': n + k - 1})
        self.do({'op': 'find_settings', 'r': r, 'sets': [], 'S': [], 'start': 0, 'end': None})

    def g_remove_prefixlike(self):
        """A compound verbatim setting whose code list starts like a plain one: removing the plain one must leave it alone."""
        r = self.pick('S')
        if not r or self.length(r) < 2:
            return
        n = self.length(r)
        plain, comp = self.rng.choice([('1', '1;31'), ('4', '4;3'), ('31', '31;1'), ('38;5;1', '38;5;1;4')])
        order = [(comp, 'verb'), (plain, 'aset')]
        self.rng.shuffle(order)
        for code, kind in order:
            a_ = self.rng.randint(0, n - 1)
            self.do({'op': 'apply', 'r': r, 'sets': [{'k': kind, 'v': code}], 'S': [code], 'start': self.rng.choice([0, a_]), 'end': None, 'top': True})
        target = plain if self.rng.random() < 0.7 else comp
        self.do({'op': 'remove', 'r': r, 'sets': [{'k': 'aset', 'v': target}], 'S': [target], 'start': 0, 'end': self.rng.choice([None, n, n - 1])})

    def g_matching_adjacent(self):
        """Back-to-back matches of a two-character pattern, with prior formatting that starts inside one match and runs on."""
        if not self.room(5):
            return
        unit = self.rng.choice(['ab', 'xy', 'ha', '12'])
        k = self.rng.randint(2, 4)
        text = self.rng.choice(['', '-', 'z']) + unit * k + self.rng.choice(['', '-', unit[0]])
        off = len(text) - len(text.lstrip('-z'))
        r = self.do({'op': 'new', 'cls': self.rng.choice('SSA'), 'text': text, 'sets': [], 'S': []})['res'][0]
        x, y = self.rng.choice([('31', '34'), ('1', '22'), ('41', '42')])
        st = off + 1 + 2 * self.rng.randint(0, k - 1)
        e = self.do({'op': 'apply', 'r': r, 'sets': [{'k': 'aset', 'v': x}], 'S': [x], 'start': st, 'end': self.rng.choice([None, len(text), st + 3]), 'top': True})
        if e['res']:
            r = e['res'][0]
        un = self.rng.random() < 0.25
        self.do({'op': 'unformat_matching' if un else 'format_matching', 'r': r, 'pat': unit, 'regex': self.rng.random() < 0.3,
                 'match_case': self.rng.random() < 0.5, 'count': self.rng.choice([-1, -1, 2, 3]),
                 'sets': [{'k': 'aset', 'v': x if un else y}], 'S': [x if un else y]})

    def g_match_case_match(self):
        """Case-sensitive matching, an in-place case conversion, the very same matching again."""
        r = self.pick('S')
        if not r or not self.room(6) or self.length(r) < 2:
            return
        t = self.base_text(r)
        i = self.rng.randrange(len(t))
        pat = t[i:i + self.rng.randint(1, 2)]
        regex = self.rng.random() < 0.3
        un = self.rng.random() < 0.3
        forms, S = self.settings()
        o = {'op': 'unformat_matching' if un else 'format_matching', 'r': r, 'pat': pat, 'regex': regex, 'match_case': True,
             'count': -1, 'sets': forms, 'S': S}
        self.do(dict(o))
        self.do({'op': 'case', 'r': r, 'm': self.rng.choice(['upper', 'lower', 'swapcase', 'title', 'capitalize']), 'inplace': True})
        forms2, S2 = self.settings()
        o2 = dict(o)
        if self.rng.random() < 0.6:
            o2['sets'], o2['S'] = forms2, S2
        self.do(o2)

    def g_remove_disjoint(self):
        """Several settings that are present but never together on one character, removed in one call."""
        if not self.room(4):
            return
        text = self.text(3)
        n = len(text)
        if n < 3:
            return
        cls = self.rng.choice('SAA')
        r = self.do({'op': 'new', 'cls': 'S', 'text': text, 'sets': [], 'S': []})['res'][0]
        j = self.rng.randint(1, n - 1)
        x, y = self.rng.sample(['1', '4', '31', '42', '3'], 2)
        self.do({'op': 'apply', 'r': r, 'sets': [{'k': 'aset', 'v': x}], 'S': [x], 'start': 0, 'end': j, 'top': True})
        self.do({'op': 'apply', 'r': r, 'sets': [{'k': 'aset', 'v': y}], 'S': [y], 'start': j, 'end': n, 'top': True})
        if cls == 'A':
            r = self.do({'op': 'new', 'cls': 'A', 'src': r, 'sets': [], 'S': []})['res'][0]
        forms = [{'k': 'aset', 'v': x}, {'k': 'aset', 'v': y}]
        if self.rng.random() < 0.3:
            forms = [{'k': 'str', 'v': x + ';' + y}]
        self.do({'op': 'remove', 'r': r, 'sets': forms, 'S': [x, y], 'start': 0, 'end': None})

    def g_find_overlap(self):
        """The same setting applied on two overlapping ranges, then searched for."""
        r = self.pick('S')
        if not r or self.length(r) < 4:
            return
        n = self.length(r)
        f, d = self.rng.choice([c for c in PAL_CORE + PAL_MORE if len(c[1]) == 1])
        a_ = self.rng.randint(0, n - 3)
        b_ = self.rng.randint(a_ + 2, n - 1)
        c_ = self.rng.randint(a_ + 1, b_ - 1)
        self.do({'op': 'apply', 'r': r, 'sets': [f], 'S': d, 'start': a_, 'end': b_, 'top': True})
        self.do({'op': 'apply', 'r': r, 'sets': [f], 'S': d, 'start': c_, 'end': self.rng.randint(b_, n), 'top': self.rng.random() < 0.7})
        self.do({'op': 'find_settings', 'r': r, 'sets': [f], 'S': d, 'start': self.rng.choice([0, a_]), 'end': None, 'reverse': self.rng.random() < 0.3})

    def g_find_pair(self):
        """Two different settings on overlapping ranges (either may end first), searched for together in both listing
        orders, forwards and backwards, over the whole text and over ranges that end exactly at a change point."""
        r = self.pick('S')
        if not r or self.length(r) < 4:
            return
        n = self.length(r)
        singles = [c for c in PAL_CORE + PAL_MORE if len(c[1]) == 1]
        (f1, d1), (f2, d2) = self.rng.sample(singles, 2)
        a_ = self.rng.randint(0, n - 3)
        b_ = self.rng.randint(a_ + 2, n - 1)
        c_ = self.rng.randint(a_, b_ - 1)
        e_ = self.rng.randint(b_ - 1, n)
        self.do({'op': 'apply', 'r': r, 'sets': [f1], 'S': d1, 'start': a_, 'end': b_, 'top': self.rng.random() < 0.5})
        self.do({'op': 'apply', 'r': r, 'sets': [f2], 'S': d2, 'start': c_, 'end': e_, 'top': self.rng.random() < 0.5})
        for (fs, ds) in (([f1, f2], d1 + d2), ([f2, f1], d2 + d1)):
            end = self.rng.choice([None, None, b_, e_, b_ - n, n])
            self.do({'op': 'find_settings', 'r': r, 'sets': fs, 'S': ds, 'start': self.rng.choice([0, a_, c_]), 'end': end,
                     'reverse': self.rng.random() < 0.3})
        self.do({'op': 'find_settings', 'r': r, 'sets': [f1], 'S': d1, 'start': 0, 'end': b_, 'reverse': self.rng.random() < 0.3})
        self.do({'op': 'find_settings', 'r': r, 'sets': [f2], 'S': d2, 'start': 0, 'end': self.rng.choice([b_, c_]),
                 'reverse': self.rng.random() < 0.3})

    def g_shrink_then_find(self):
        """Query, shorten the object in place from the left (clip / lstrip / removeprefix / replace), query again."""
        r = self.pick('S')
        if not r or self.length(r) < 3:
            return
        n = self.length(r)
        t = self.base_text(r)
        present = sorted({tuple(self.m.texts.rows[tt - 1]) for row in self.m.snaps[r]['s'] for (_, tt) in row})
        cands = [(f, d) for (f, d) in PAL_CORE + PAL_MORE if len(d) == 1 and tuple(map(ord, d[0])) in present]
        f, d = self.rng.choice(cands) if cands else self.rng.choice(PAL_CORE)
        self.do({'op': 'ansi_settings_at', 'r': r, 'i': 0})
        self.do({'op': 'find_settings', 'r': r, 'sets': [f], 'S': d, 'start': 0, 'end': None})
        k = self.rng.randint(1, n - 1)
        how = self.rng.choice(['clip', 'rmfix', 'strip', 'replace'])
        if how == 'clip':
            self.do({'op': 'clip', 'r': r, 'start': k, 'end': None, 'inplace': True})
        elif how == 'rmfix':
            self.do({'op': 'rmfix', 'r': r, 'm': 'removeprefix', 's': t[:k], 'inplace': True})
        elif how == 'strip':
            self.do({'op': 'strip', 'r': r, 'm': 'lstrip', 'chars': t[:1], 'inplace': True})
        elif self.room(2):
            e = self.do({'op': 'lit', 'text': ''})
            self.do({'op': 'replace', 'r': r, 'old': t[:1], 'new': e['res'][0], 'count': 1, 'inplace': True})
        self.do({'op': 'ansi_settings_at', 'r': r, 'i': 0})
        self.do({'op': 'find_settings', 'r': r, 'sets': [f], 'S': d, 'start': 0, 'end': None})
        self.do({'op': 'find_settings', 'r': r, 'sets': [f], 'S': d, 'start': 0, 'end': None, 'reverse': True})

    def g_clear(self):
        r = self.pick()
        if r:
            self.do({'op': 'clear', 'r': r})

    def probe_closed(self, res, tag='probe_closed'):
        if not self.room(2):
            return
        e = self.do({'op': 'lit', 'text': self.rng.choice(['x', 'xy'])})
        self.do({'op': 'add', 'r': res, 'other': e['res'][0], 'tag': tag})

    def g_slice(self):
        r = self.pick()
        if not r or not self.room(4):
            return
        e = self.do({'op': 'slice', 'r': r, 'start': self.bound(r), 'stop': self.bound(r)})
        if e['out'] == 'ok' and e['res']:
            if self.rng.random() < 0.7:
                self.probe_closed(e['res'][0])
            if self.rng.random() < 0.4 and self.m.kinds[e['res'][0]] == 'S':
                forms, S = self.settings()
                self.do({'op': 'apply', 'r': e['res'][0], 'sets': forms, 'S': S, 'start': 0, 'end': None, 'top': True})

    def g_index(self):
        r = self.pick()
        if not r or not self.room(3):
            return
        n = self.length(r)
        i = self.rng.choice([-1, 0, n - 1, -n, n, -n - 1, self.rng.randint(-n - 1, n + 1)])
        e = self.do({'op': 'index', 'r': r, 'i': i})
        if e['out'] == 'ok' and self.rng.random() < 0.5:
            self.probe_closed(e['res'][0])

    def g_clip(self):
        r = self.pick()
        if not r or not self.room(3):
            return
        e = self.do({'op': 'clip', 'r': r, 'start': self.bound(r), 'end': self.bound(r), 'inplace': self.rng.random() < 0.5})
        if e['out'] == 'ok' and self.rng.random() < 0.6:
            self.probe_closed(e['res'][0])

    def g_iter(self):
        r = self.pick()
        if r and self.length(r) <= 8 and self.room(self.length(r) + 1):
            self.do({'op': 'iter', 'r': r})

    def g_iter_join(self):
        r = self.pick()
        if r and 1 <= self.length(r) <= 7 and self.room(self.length(r) + 3):
            e = self.do({'op': 'iter', 'r': r})
            if e['out'] == 'ok' and e['res']:
                self.do({'op': 'join', 'cls': 'S', 'items': e['res'], 'tag': 'rejoin_iter:%d' % r})

    def g_shared_objects(self):
        """Values that hold the very same AnsiSetting objects (self-concatenation, copies) with equal-valued overlapping
        settings, concatenated, taken apart and joined again."""
        if not self.room(14):
            return
        e = self.do({'op': 'new', 'cls': 'S', 'text': self.rng.choice(['aab', 'ab-', 'abab']), 'sets': [{'k': 'aset', 'v': '31'}], 'S': ['31']})
        r = e['res'][0]
        n = self.length(r)
        if self.rng.random() < 0.6:
            # two equal-valued settings, one covering the end and one covering the start, both underneath
            code = self.rng.choice(['1', '34', '4'])
            j = self.rng.randint(1, n - 1)
            k = self.rng.randint(1, n - 1)
            top = self.rng.random() < 0.25
            self.do({'op': 'apply', 'r': r, 'sets': [{'k': 'aset', 'v': code}], 'S': [code], 'start': j, 'end': n, 'top': top})
            self.do({'op': 'apply', 'r': r, 'sets': [{'k': 'aset', 'v': code}], 'S': [code], 'start': 0, 'end': k, 'top': top})
        else:
            for _ in range(self.rng.randint(1, 3)):
                a_ = self.rng.randint(0, n - 1)
                code = self.rng.choice(['1', '1', '34'])
                self.do({'op': 'apply', 'r': r, 'sets': [{'k': 'aset', 'v': code}], 'S': [code], 'start': a_,
                         'end': self.rng.randint(a_ + 1, n), 'top': self.rng.random() < 0.4})
        c = self.do({'op': 'copy', 'r': r})['res'][0]
        t = self.do({'op': self.rng.choice(['add', 'add', 'iadd']), 'r': r, 'other': self.rng.choice([r, c])})
        if t['out'] != 'ok':
            return
        t = t['res'][0]
        if self.rng.random() < 0.7:
            t2 = self.do({'op': 'add', 'r': t, 'other': self.rng.choice([c, r, t])})
            if t2['out'] == 'ok':
                t = t2['res'][0]
        if self.length(t) <= 9 and self.room(self.length(t) + 2):
            it = self.do({'op': 'iter', 'r': t})
            if it['out'] == 'ok' and it['res']:
                self.do({'op': 'join', 'cls': 'S', 'items': it['res'], 'tag': 'rejoin_iter:%d' % t})

    def other_operand(self, r):
        x = self.rng.random()
        if x < 0.2:
            return r
        if x < 0.45 and self.room(2):
            e = self.do({'op': 'lit', 'text': self.text()})
            return e['res'][0]
        return self.pick('SAP')

    def g_add(self):
        r = self.pick()
        if not r or not self.room(3):
            return
        o = self.other_operand(r)
        if o:
            self.do({'op': 'add', 'r': r, 'other': o})

    def g_iadd(self):
        r = self.pick()
        if not r or not self.room(3):
            return
        o = self.other_operand(r)
        if o:
            self.do({'op': 'iadd', 'r': r, 'other': o})

    def g_join_plain_escapes(self):
        """join / + with plain str operands that carry raw escape sequences (each operand is parsed on its own)."""
        if not self.room(6):
            return
        items = []
        for _ in range(self.rng.randint(2, 4)):
            t = self.rng.choice(['\x1b[31mERR:', ' disk', '\x1b[1mw', 'ab\x1b[34m', '\x1b[mz', 'x', self.text(), '\x1b[4;38;5;9mq\x1b[m'])
            items.append(self.do({'op': 'lit', 'text': t})['res'][0])
        x = self.rng.random()
        if x < 0.6:
            if self.rng.random() < 0.4 and self.pick('SA'):
                items[self.rng.randrange(len(items))] = self.pick('SA')
            self.do({'op': 'join', 'cls': self.rng.choice('SSA'), 'items': items})
        else:
            r = self.pick('SA')
            if r:
                self.do({'op': self.rng.choice(['add', 'iadd']), 'r': r, 'other': items[0]})

    def g_join(self):
        if not self.room(3):
            return
        k = self.rng.randint(0, 4)
        items = [self.pick('SAP') for _ in range(k)]
        if all(items):
            self.do({'op': 'join', 'cls': 'A' if self.rng.random() < 0.3 else 'S', 'items': items})

    def g_split_rejoin(self):
        """s[:k] + s[k:] for a split point k (C05 consequence)."""
        r = self.pick()
        if not r or not self.room(4):
            return
        n = self.length(r)
        k = self.rng.randint(0, n)
        a = self.do({'op': 'slice', 'r': r, 'start': None, 'stop': k})
        b = self.do({'op': 'slice', 'r': r, 'start': k, 'stop': None})
        if a['out'] == 'ok' and b['out'] == 'ok':
            self.do({'op': 'add', 'r': a['res'][0], 'other': b['res'][0], 'tag': 'rejoin:%d' % r})

    def g_copy(self):
        r = self.pick()
        if not r or not self.room(2):
            return
        e = self.do({'op': 'copy', 'r': r})
        if e['out'] == 'ok':
            c = e['res'][0]
            self.do({'op': 'eq', 'r': r, 'other': c, 'tag': 'probe_copy_eq'})
            # mutate one side afterwards: the frame clause watches the other
            side = self.rng.choice([r, c])
            if self.m.kinds[side] == 'S':
                forms, S = self.settings()
                self.do({'op': 'apply', 'r': side, 'sets': forms, 'S': S, 'start': self.bound(side, False), 'end': self.bound(side), 'top': True})

    def g_render(self):
        r = self.pick()
        if r:
            self.do({'op': 'render', 'r': r, 'how': self.rng.choice(['str', 'to_str']),
                     'optimize': self.rng.random() < 0.5, 'reset_start': self.rng.random() < 0.5,
                     'reset_end': self.rng.random() < 0.5})

    # -- str-like methods ------------------------------------------------------------------------
    def base_text(self, r):
        return ''.join(chr(c) for c in self.m.snaps[r]['t'])

    def substr(self, r, lo=0, hi=3):
        """A substring of the receiver's text (likely to match), or a random short string."""
        t = self.base_text(r)
        if t and self.rng.random() < 0.7:
            i = self.rng.randrange(len(t))
            return t[i:i + self.rng.randint(max(lo, 1), hi)]
        return ''.join(self.rng.choice(self.alpha) for _ in range(self.rng.randint(lo, hi)))

    def g_nonuniform(self):
        """A value with a distinct setting on every character (any offset error becomes visible)."""
        text = self.text(2)
        if self.rng.random() < 0.4:
            text = self.rng.choice([' ', '  ', '-', '\t ']) + text + self.rng.choice(['', '', ' ', '-'])
        enclosing = self.rng.random() < 0.5
        e = self.do({'op': 'new', 'cls': 'S', 'text': text, 'sets': [{'k': 'aset', 'v': '21'}] if enclosing else [],
                     'S': ['21'] if enclosing else []})
        r = e['res'][0]
        codes = ['31', '32', '33', '34', '35', '36', '41', '42', '43', '44', '1', '3', '4', '9', '38;5;%d']
        for i in range(len(text)):
            c = codes[i % 14] if self.rng.random() < 0.8 else '38;5;%d' % (i + 1)
            self.do({'op': 'apply', 'r': r, 'sets': [{'k': 'aset', 'v': c}], 'S': [c], 'start': i, 'end': i + 1, 'top': True})
        if self.rng.random() < 0.3 and self.room(2):
            self.do({'op': 'new', 'cls': 'A', 'src': r, 'sets': [], 'S': []})

    def g_cut_tail(self):
        """The tail is cut off exactly where one setting stops while another continues across the cut - through every
        spelling of the cut (clip, slice, rstrip, removesuffix, assign_str, in place or not, AnsiStr) - and the result is
        probed by appending text: nothing may stay open beyond its end."""
        if not self.room(8):
            return
        n = self.rng.randint(3, 7)
        e_ = self.rng.randint(2, n - 1)
        i = self.rng.randint(0, e_ - 1)
        body = ''.join(self.rng.choice('ab') for _ in range(e_))
        text = body[:-1] + 'a' + '-' * (n - e_)          # the tail is '-'...: rstrip('-') / removesuffix cut at e_
        outer, inner = self.rng.choice([('31', '1'), ('1', '31'), ('41', '4'), ('34', '31'), ('38;5;9', '3')])
        r = self.do({'op': 'new', 'cls': 'S', 'text': text, 'sets': [{'k': 'aset', 'v': outer}], 'S': [outer]})['res'][0]
        self.do({'op': 'apply', 'r': r, 'sets': [{'k': 'aset', 'v': inner}], 'S': [inner], 'start': i, 'end': e_, 'top': self.rng.random() < 0.7})
        if self.rng.random() < 0.3:
            r = self.do({'op': 'new', 'cls': 'A', 'src': r, 'sets': [], 'S': []})['res'][0]
        S = self.m.kinds[r] == 'S'
        how = self.rng.choice(['clip', 'clip', 'slice', 'strip', 'rmfix', 'assign'] if S else ['clip', 'slice', 'strip', 'rmfix'])
        ip = S and self.rng.random() < 0.7
        if how == 'clip':
            o = {'op': 'clip', 'r': r, 'start': self.rng.choice([None, 0]), 'end': self.rng.choice([e_, e_ - n]), 'inplace': ip}
        elif how == 'slice':
            o = {'op': 'slice', 'r': r, 'start': self.rng.choice([None, 0]), 'stop': e_}
        elif how == 'strip':
            o = {'op': 'strip', 'r': r, 'm': self.rng.choice(['rstrip', 'strip']), 'chars': '-', 'inplace': ip}
        elif how == 'rmfix':
            o = {'op': 'rmfix', 'r': r, 'm': 'removesuffix', 's': '-' * (n - e_), 'inplace': ip}
        else:
            o = {'op': 'assign_str', 'r': r, 'text': text[:e_]}
        ev = self.do(o)
        if ev['out'] == 'ok':
            res = ev['res'][0] if ev.get('res') else r
            self.probe_closed(res, 'probe_cut_closed')

    def g_iter_twice(self):
        """Iterate (or take every index), change the formatting in place over a range whose ends are EXISTING change
        points (no new point appears), iterate again."""
        r = self.pick('S')
        if not r or not (1 <= self.length(r) <= 6) or not self.room(2 * self.length(r) + 2):
            return
        n = self.length(r)
        how = self.rng.choice(['iter', 'iter', 'index'])
        def walk():
            if how == 'iter':
                self.do({'op': 'iter', 'r': r})
            else:
                for i in range(n):
                    self.do({'op': 'index', 'r': r, 'i': i if self.rng.random() < 0.7 else i - n})
        walk()
        cps_ = sorted(set([0, n] + self.change_points(r)))
        a_, b_ = sorted(self.rng.sample(cps_, 2)) if len(cps_) >= 2 else (0, n)
        if self.rng.random() < 0.6:
            forms, S = self.settings()
            self.do({'op': 'apply', 'r': r, 'sets': forms, 'S': S, 'start': a_, 'end': self.rng.choice([b_, None]) if b_ == n else b_,
                     'top': self.rng.random() < 0.7})
        else:
            self.do({'op': 'remove', 'r': r, 'all': True, 'start': a_, 'end': b_})
        walk()

    def g_astr_of_source(self):
        """An AnsiStr made from an AnsiString; the source is then changed in place; the AnsiStr must still render, report
        and compare as before (payload, to_str, settings)."""
        r = self.pick('S')
        if not r or not self.room(6):
            return
        a = self.do({'op': 'new', 'cls': 'A', 'src': r, 'sets': [], 'S': []})
        if a['out'] != 'ok' or not a['res']:
            return
        a = a['res'][0]
        self._with_subject(r, self.rng.choice(['apply', 'apply', 'remove', 'iadd', 'assign_str', 'pad', 'clear', 'case']), True)
        for how in self.rng.sample(['str', 'format', 'fstr', 'to_str'], 2):
            self.do({'op': 'render', 'r': a, 'how': how})
        if self.length(a):
            self.do({'op': 'ansi_settings_at', 'r': a, 'i': self.rng.randrange(self.length(a))})

    def g_esc_in_base(self):
        """A value whose BASE TEXT contains a complete SGR-looking sequence (ESC [ ... m), assembled from pieces none of
        which contains one (concatenation, assign_str, padding with ESC as fill): whatever is done to it afterwards, the
        text must be treated as text, never parsed again."""
        if not self.room(8):
            return
        body = self.rng.choice(['1', '31', '0', '', '1;31', '38;5;9'])
        tail = self.rng.choice(['X', 'ab', 'a b-'])
        how = self.rng.choice(['add', 'add', 'assign', 'rjust', 'join'])
        cls = self.rng.choice('SSA')
        forms, S = self.settings() if self.rng.random() < 0.5 else ([], [])
        if how == 'assign':
            r = self.do({'op': 'new', 'cls': 'S', 'text': 'q' * self.rng.randint(1, 3), 'sets': forms, 'S': S})['res'][0]
            self.do({'op': 'assign_str', 'r': r, 'text': self.rng.choice(['', 'a']) + '\x1b[' + body + 'm' + tail})
        elif how == 'rjust':
            t = '[' + body + 'm' + tail
            r = self.do({'op': 'new', 'cls': cls, 'text': t, 'sets': forms, 'S': S})['res'][0]
            e = self.do({'op': 'pad', 'r': r, 'm': 'rjust', 'width': len(t) + 1, 'fill': '\x1b', 'extend': self.rng.random() < 0.5, 'inplace': False})
            if e['out'] != 'ok' or not e['res']:
                return
            r = e['res'][0]
        else:
            a = self.do({'op': 'new', 'cls': cls, 'text': self.rng.choice(['', 'a', 'ab']) + '\x1b', 'sets': forms, 'S': S})['res'][0]
            if self.rng.random() < 0.5:
                forms2, S2 = self.settings()
                b_ = self.do({'op': 'new', 'cls': self.rng.choice('SA'), 'text': '[' + body + 'm' + tail, 'sets': forms2, 'S': S2})['res'][0]
            else:
                b_ = self.do({'op': 'lit', 'text': '[' + body + 'm' + tail})['res'][0]
            if how == 'join':
                e = self.do({'op': 'join', 'cls': 'S', 'items': [a, b_]})
            else:
                e = self.do({'op': 'add', 'r': a, 'other': b_})
            if e['out'] != 'ok' or not e['res']:
                return
            r = e['res'][0]
        # and now anything at all
        for _ in range(self.rng.randint(1, 3)):
            nm = self.rng.choice(['slice', 'clip', 'index', 'iter', 'strip', 'rmfix', 'split', 'splitlines', 'partition', 'replace', 'clear', 'copy',
                                  'case', 'pad', 'apply', 'remove', 'query', 'render', 'add', 'cut_tail_of', 'simplify', 'simplify'])
            if nm == 'cut_tail_of':
                n = self.length(r)
                self.do({'op': 'slice', 'r': r, 'start': self.rng.choice([None, 0, 1, 2]), 'stop': self.rng.choice([None, n, n - 1])})
            elif hasattr(self, 'g_' + nm):
                self._with_subject(r, nm, self.rng.random() < 0.4 and self.m.kinds[r] == 'S')

    def g_many_end(self):
        """Three to six settings of different groups end at one index inside the text while another continues."""
        r = self.pick('S')
        if not r or self.length(r) < 3:
            return
        n = self.length(r)
        cont = self.rng.choice(['41', '44', '1', '38;2;1;2;3', '31', '4', '48;5;17'])
        self.do({'op': 'apply', 'r': r, 'sets': [{'k': 'aset', 'v': cont}], 'S': [cont], 'start': 0, 'end': None, 'top': self.rng.random() < 0.5})
        pool = [c for c in ['1', '3', '4', '9', '53', '5', '7', '31', '58;5;3', '38;5;208', '21', '2', '13', '11', '26', '51'] if c != cont]
        k = self.rng.randint(3, 6)
        S = self.rng.sample(pool, k)
        j = self.rng.randint(2, n - 1)
        i = self.rng.randint(0, j - 1)
        if self.rng.random() < 0.5:
            self.do({'op': 'apply', 'r': r, 'sets': [{'k': 'aset', 'v': c} for c in S], 'S': S, 'start': i, 'end': j, 'top': True})
        else:
            for c in S:
                self.do({'op': 'apply', 'r': r, 'sets': [{'k': 'aset', 'v': c}], 'S': [c], 'start': self.rng.randint(0, j - 1), 'end': j, 'top': True})

    def g_clear_over(self):
        """A clearing setting (39, 49, 22, 24, ...) on an inner range over an active setting of its group, with other
        settings staying on."""
        r = self.pick('S')
        if not r or self.length(r) < 3:
            return
        n = self.length(r)
        g = self.rng.choice(sorted(GROUP_CODES))
        x, clr = self.rng.choice(GROUP_CODES[g][0]), GROUP_CODES[g][1]
        keep = [GROUP_CODES[h][0][0] for h in self.rng.sample([h for h in ('bold', 'ital', 'cross', 'fg', 'bg', 'over') if h != g], self.rng.randint(0, 3))]
        S = keep + [x]
        self.rng.shuffle(S)
        self.do({'op': 'apply', 'r': r, 'sets': [{'k': 'aset', 'v': c} for c in S], 'S': S, 'start': 0, 'end': None, 'top': True})
        i = self.rng.randint(1, n - 2)
        self.do({'op': 'apply', 'r': r, 'sets': [{'k': 'aset', 'v': clr}], 'S': [clr], 'start': i, 'end': self.rng.randint(i + 1, n - 1), 'top': True})

    def ip(self):
        return self.rng.random() < 0.4

    def g_case(self):
        r = self.pick()
        if r and self.room(2):
            self.do({'op': 'case', 'r': r, 'm': self.rng.choice(['capitalize', 'casefold', 'lower', 'upper', 'swapcase', 'title']),
                     'inplace': self.ip()})

    def g_pad(self):
        r = self.pick()
        if not r or not self.room(4):
            return
        n = self.length(r)
        meth = self.rng.choice(['ljust', 'rjust', 'center', 'center', 'zfill'])
        widths = [0, n - 1, n, n + 1, n + 2, n + 3, n + 4, n + 7, -3] + ([9, 10, 16, 17, 100, 101] if self.rng.random() < 0.15 else [])
        cp = [0] + self.change_points(r) + [n]
        if len(cp) > 2 and self.rng.random() < 0.5:
            # left padding equal to the distance between two change points
            a_, b_ = sorted(self.rng.sample(cp, 2))
            d = b_ - a_
            widths = [n + d, n + 2 * d, n + 2 * d + 1]
        o = {'op': 'pad', 'r': r, 'm': meth, 'width': self.rng.choice(widths), 'inplace': self.ip()}
        if meth != 'zfill':
            x = self.rng.random()
            if x < 0.6:
                o['fill'] = self.rng.choice([':', '+', '-', '0', '7', 'x', ' ', '*', '<', '\t', '\u00a0', '\u200b', '\u3000', '\u00e9'])
            elif x < 0.65:
                o['fill'] = self.rng.choice(['', 'ab'])
            o['extend'] = self.rng.random() < 0.65
            if self.rng.random() < 0.06 and self.room(3):
                # the fill character as a formatted AnsiStr of one character
                fs = self.do({'op': 'new', 'cls': 'A', 'text': self.rng.choice('*x-'), 'sets': [{'k': 'aset', 'v': '31'}], 'S': ['31']})
                if fs['out'] == 'ok' and fs['res']:
                    o.pop('fill', None)
                    o['fill_src'] = fs['res'][0]
        e = self.do(o)
        if e['out'] == 'ok' and e['res'] and self.rng.random() < 0.7:
            self.probe_closed(e['res'][0], 'probe_pad_closed')

    ANSI_PARTS = ['bold', 'red', 'bold;red', 'underline;red', '1', '31', '4', '107', '01', '31;1', 'rgb(1,2,3)', 'bg_green', 'nonsense', '', '[38;5;7']

    def g_fmt(self):
        r = self.pick()
        if not r or not self.room(3):
            return
        n = self.length(r)
        x = self.rng.random()
        if x < 0.8:
            fill = self.rng.choice(['', '', ':', '+', '-', '0', '7', 'x', ' ', '<', '*', '\t', '\u00a0', '\u200b', '\n', '\r'])
            sign = self.rng.choice(['', '', '+', '-'])
            align = self.rng.choice(['<', '>', '^', '^', '']) if (fill or sign) is not None else ''
            width = self.rng.choice(['', str(n), str(n + 1), str(n + 2), str(n + 3), str(n + 6), '0', '03'])
            if not align and self.rng.random() < 0.8:
                fill, sign = '', ''
            spec = fill + sign + align + width
            if self.rng.random() < 0.5:
                spec += ':' + self.rng.choice(self.ANSI_PARTS)
            if self.rng.random() < 0.06:
                spec += self.rng.choice(['\n', '\n', ' ', 'x'])          # something behind a complete spec
        else:
            spec = ''.join(self.rng.choice('x:+-<^>50 ') for _ in range(self.rng.randint(1, 5)))
            while sum(c.isdigit() for c in spec) > 2:       # keep widths small (a 5-digit width is a 50 000 character text)
                spec = spec.replace('5', '', 1) if '5' in spec else spec.replace('0', '', 1)
        self.do({'op': 'fmt', 'r': r, 'spec': spec, 'how': self.rng.choice(['format', 'format', 'to_str', 'fstr'])})

    def g_pad_nested(self):
        """Nested style ranges, then a left padding equal to the distance between two of their end points."""
        if not self.room(5):
            return
        text = ''.join(self.rng.choice(self.alpha) for _ in range(self.rng.randint(4, 7)))
        n = len(text)
        e = self.do({'op': 'new', 'cls': 'S', 'text': text, 'sets': [{'k': 'aset', 'v': '31'}], 'S': ['31']})
        r = e['res'][0]
        pts = {0, n}
        for code in self.rng.sample(['3', '1', '4', '34', '9', '42'], self.rng.randint(2, 3)):
            a_ = self.rng.randint(0, n - 1)
            b_ = self.rng.randint(a_ + 1, n)
            pts |= {a_, b_}
            self.do({'op': 'apply', 'r': r, 'sets': [{'k': 'aset', 'v': code}], 'S': [code], 'start': a_, 'end': b_, 'top': True})
        a_, b_ = sorted(self.rng.sample(sorted(pts), 2))
        d = b_ - a_
        meth = self.rng.choice(['rjust', 'zfill', 'center', 'center'])
        width = n + d if meth in ('rjust', 'zfill') else n + 2 * d + self.rng.choice([0, 1])
        o = {'op': 'pad', 'r': r, 'm': meth, 'width': width, 'inplace': self.ip()}
        if meth != 'zfill':
            o['extend'] = self.rng.random() < 0.6
            if self.rng.random() < 0.5:
                o['fill'] = '*'
        e = self.do(o)
        if e['out'] == 'ok' and e['res'] and self.rng.random() < 0.4 and self.room(4):
            # a second left padding of the result, again by the distance between two of its markers
            r2 = e['res'][0]
            n2 = self.length(r2)
            cp = [0] + self.change_points(r2) + [n2]
            a2, b2 = sorted(self.rng.sample(cp, 2)) if len(cp) > 2 else (0, n2)
            e = self.do({'op': 'pad', 'r': r2, 'm': 'rjust', 'width': n2 + max(1, b2 - a2), 'inplace': self.ip(),
                         'extend': self.rng.random() < 0.5})
        if e['out'] == 'ok' and e['res']:
            self.probe_closed(e['res'][0], 'probe_pad_closed')

    def g_strip(self):
        r = self.pick()
        if r and self.room(2):
            t = self.base_text(r)
            chars = None if self.rng.random() < 0.4 else self.rng.choice(['a', 'ab', ' -', 'b ', '', t[:1] + t[-1:], '\t '])
            self.do({'op': 'strip', 'r': r, 'm': self.rng.choice(['strip', 'lstrip', 'rstrip']), 'chars': chars, 'inplace': self.ip()})

    def g_strip_enclosed(self):
        """Leading/trailing strippable characters under an enclosing style, with a style change exactly at the first/last
        kept character; stripped in place, not in place, and through AnsiStr."""
        if not self.room(6):
            return
        lead = self.rng.choice(['  ', ' ', '\t ', '--', ''])
        trail = self.rng.choice(['', '', ' ', '--'])
        core = ''.join(self.rng.choice('abA') for _ in range(self.rng.randint(2, 5)))
        text = lead + core + trail
        n = len(text)
        r = self.do({'op': 'new', 'cls': 'S', 'text': text, 'sets': [], 'S': []})['res'][0]
        a0 = self.rng.choice([0, max(0, len(lead) - 1)])
        self.do({'op': 'apply', 'r': r, 'sets': [{'k': 'aset', 'v': '4'}], 'S': ['4'], 'start': a0, 'end': self.rng.choice([None, n, n - 1]), 'top': True})
        self.do({'op': 'apply', 'r': r, 'sets': [{'k': 'aset', 'v': '31'}], 'S': ['31'], 'start': len(lead),
                 'end': len(lead) + self.rng.randint(1, len(core)), 'top': True})
        if self.rng.random() < 0.5:
            self.do({'op': 'apply', 'r': r, 'sets': [{'k': 'aset', 'v': '42'}], 'S': ['42'], 'start': len(lead) + len(core) - 1,
                     'end': len(lead) + len(core), 'top': True})
        chars = None if lead.strip() == '' and trail.strip() == '' and self.rng.random() < 0.7 else ' -\t'
        meth = self.rng.choice(['lstrip', 'strip', 'strip', 'rstrip'])
        target = r
        if self.rng.random() < 0.4:
            target = self.do({'op': 'new', 'cls': 'A', 'src': r, 'sets': [], 'S': []})['res'][0]
        e = self.do({'op': 'strip', 'r': target, 'm': meth, 'chars': chars, 'inplace': self.rng.random() < 0.6})
        if e['out'] == 'ok' and e['res']:
            self.probe_closed(e['res'][0])

    def g_rmfix(self):
        r = self.pick()
        if r and self.room(2):
            t = self.base_text(r)
            meth = self.rng.choice(['removeprefix', 'removesuffix'])
            k = self.rng.randint(0, 3)
            s_ = (t[:k] if meth == 'removeprefix' else t[len(t) - k:]) if self.rng.random() < 0.7 else self.substr(r, 0, 2)
            self.do({'op': 'rmfix', 'r': r, 'm': meth, 's': s_, 'inplace': self.ip()})

    def g_replace(self):
        r = self.pick()
        if not r or not self.room(4):
            return
        old = self.substr(r, 1, 2) if self.rng.random() < 0.95 else ''
        x = self.rng.random()
        if x < 0.45:
            e = self.do({'op': 'lit', 'text': self.rng.choice(['', '+', 'xy', old + old, 'a', '\x1b[31m+\x1b[m', '\x1b[1m' + old + '\x1b[0m', 'x\x1b[4my'])})
            new = e['res'][0]
        elif x < 0.8:
            forms, S = self.settings()
            e = self.do({'op': 'new', 'cls': 'A' if self.rng.random() < 0.3 else 'S', 'text': self.rng.choice(['+', 'xy', 'a', '']),
                         'sets': forms, 'S': S})
            new = e['res'][0]
        else:
            new = self.pick('SAP')
        if new:
            self.do({'op': 'replace', 'r': r, 'old': old, 'new': new, 'count': self.rng.choice([-1, -1, -1, 0, 1, 2, 9, 100]), 'inplace': self.ip()})

    def g_expandtabs(self):
        r = self.pick()
        if r and self.room(2):
            self.do({'op': 'expandtabs', 'r': r, 'tabsize': self.rng.choice([0, 1, 2, 4, 8]), 'inplace': self.ip()})

    def g_split(self):
        r = self.pick()
        if not r or not self.room(8):
            return
        sep = None if self.rng.random() < 0.3 else self.substr(r, 1, 2)
        self.do({'op': 'split', 'r': r, 'm': self.rng.choice(['split', 'rsplit']), 'sep': sep,
                 'maxsplit': self.rng.choice([-1, -1, 0, 1, 2, 3, 10, 100])})

    def g_splitlines(self):
        r = self.pick()
        if r and self.room(8):
            self.do({'op': 'splitlines', 'r': r, 'keepends': self.rng.random() < 0.5})

    def g_partition(self):
        r = self.pick()
        if r and self.room(4):
            self.do({'op': 'partition', 'r': r, 'm': self.rng.choice(['partition', 'rpartition']), 'sep': self.substr(r, 1, 2)})

    def g_assign_str(self):
        r = self.pick('S')
        if r:
            n = self.length(r)
            k = self.rng.choice([0, max(0, n - 2), max(0, n - 1), n, n + 1, n + 3])
            src = self.pick('A') if self.rng.random() < 0.2 else 0
            if src:
                self.do({'op': 'assign_str', 'r': r, 'src': src})       # an AnsiStr is a str: its text is assigned
                if self.room(3):
                    self.do({'op': 'slice', 'r': r, 'start': self.rng.choice([None, 0, 1]), 'stop': None})
            else:
                self.do({'op': 'assign_str', 'r': r, 'text': ''.join(self.rng.choice(self.alpha) for _ in range(k))})

    def g_query(self):
        r = self.pick()
        if not r:
            return
        from ..ops import QUERY0, QUERY_SUB
        x = self.rng.random()
        if x < 0.35:
            self.do({'op': 'query', 'r': r, 'm': self.rng.choice(QUERY0 + ['len', 'encode'])})
        elif x < 0.45:
            o = {'op': 'query', 'r': r, 'm': 'contains'}
            if self.rng.random() < 0.5:
                o['sub'] = self.substr(r, 0, 2) if self.rng.random() < 0.85 else self.rng.choice(['\x1b[0m', '\x1b[1m' + self.substr(r, 1, 1), '\x1b[m'])
            else:
                o['other'] = self.pick('SAP')
            self.do(o)
        else:
            n = self.length(r)
            bnd = lambda: self.rng.choice([None, None, 0, 1, -1, n, n + 1, -n, -n - 1, n - 1, 2])
            self.do({'op': 'query', 'r': r, 'm': self.rng.choice(QUERY_SUB), 'sub': self.substr(r, 0, 2), 'start': bnd(), 'end': bnd()})

    def g_settings_at(self):
        r = self.pick()
        if r:
            n = self.length(r)
            self.do({'op': 'ansi_settings_at', 'r': r, 'i': self.rng.choice([-1, 0, n - 1, n, n + 3, -n, self.rng.randint(-2, n + 1)])})

    def g_find_settings(self):
        r = self.pick()
        if not r:
            return
        present = sorted({tuple(self.m.texts.rows[t - 1]) for row in self.m.snaps[r]['s'] for (_, t) in row})
        cands = [(f, d) for (f, d) in PAL_CORE + PAL_MORE if all(tuple(map(ord, x)) in present for x in d)]
        x = self.rng.random()
        if cands and x < 0.75:
            k = 1 if self.rng.random() < 0.7 else 2
            ch = [self.rng.choice(cands) for _ in range(k)]
            forms, S = [c[0] for c in ch], [t for c in ch for t in c[1]]
        elif x < 0.9:
            forms, S = self.settings()
        else:
            forms, S = [], []
        self.do({'op': 'find_settings', 'r': r, 'sets': forms, 'S': S, 'start': self.bound(r, False) if self.rng.random() < 0.7 else 0,
                 'end': self.bound(r), 'reverse': self.rng.random() < 0.4})

    PATTERNS_PLAIN = ['a', 'b', 'ab', 'A', '-', ' ', 'a.', '.', 'b*', '(', 'ba', 'aa', '']
    PATTERNS_RE = ['a', 'a*', 'b+', '[ab]', 'a|b', '.', '', 'a?b', '(a)(b)?', 'b$', '^a', '[^a]+', 'a{2}', r'\\b', 'A']

    def g_matching(self):
        r = self.pick()
        if not r or not self.room(3):
            return
        regex = self.rng.random() < 0.5
        pat = self.rng.choice(self.PATTERNS_RE if regex else self.PATTERNS_PLAIN)
        un = self.rng.random() < 0.45
        o = {'op': 'unformat_matching' if un else 'format_matching', 'r': r, 'pat': pat, 'regex': regex,
             'match_case': self.rng.random() < 0.5, 'count': self.rng.choice([-1, -1, -1, 0, 1, 2, 3])}
        if un and self.rng.random() < 0.4:
            o['all'] = True
            o['explicit_none'] = self.rng.random() < 0.5
        else:
            o['sets'], o['S'] = self.settings()
        if self.rng.random() < 0.06:
            o['pat_astr'] = True
        self.do(o)

    def g_render8(self):
        r = self.pick()
        if not r:
            return
        for k in range(8):
            self.do({'op': 'render', 'r': r, 'how': 'to_str', 'optimize': bool(k & 1), 'reset_start': bool(k & 2),
                     'reset_end': bool(k & 4)})
        self.do({'op': 'render', 'r': r, 'how': self.rng.choice(['str', 'format', 'fstr'])})

    def g_reparse(self):
        r = self.pick()
        if r and self.room(2):
            self.do({'op': 'reparse', 'r': r, 'cls': 'A' if self.rng.random() < 0.3 else 'S', 'opt': self.rng.random() < 0.75})

    def g_simplify(self):
        r = self.pick()
        if r and self.rng.random() < 0.3:
            # explicit settings equal to what this value renders go through the lenient parse first
            import re as _re
            q = ''.join(chr(c) for c in self.m.snaps[r]['q'])
            for body in _re.findall('\x1b\\[([0-9;]+)m', q)[:3]:
                if not body.startswith(';') and ';;' not in body and not body.endswith(';'):
                    self.do({'op': 'pgs', 'codes': [int(x) for x in body.split(';')], 'enc': 'str', 'adderr': True})
        if r and self.room(2):
            if self.m.kinds[r] == 'S' and self.rng.random() < 0.5 and self.room(3):
                e = self.do({'op': 'copy', 'r': r})
                r = e['res'][0]
            self.do({'op': 'simplify', 'r': r})

    QMQ_QUERIES = ['find_settings', 'settings_at', 'iter', 'render', 'render8', 'strip', 'split', 'splitlines', 'partition',
                   'query', 'index', 'slice', 'rmfix', 'case', 'pad', 'fmt', 'replace', 'copy', 'eq', 'reparse']
    QMQ_MUTATORS = ['apply', 'apply', 'remove', 'remove', 'clear', 'iadd', 'pad', 'case', 'clip', 'strip', 'rmfix', 'replace',
                    'assign_str', 'simplify', 'expandtabs', 'matching', 'crossed_stops']

    def _with_subject(self, r, name, inplace):
        """Run generator g_<name> with the first pick() forced to r and the in-place switch forced."""
        save_pick, save_ip = self.pick, self.ip
        state = {'first': True}

        def pick(kinds='SA'):
            if state['first']:
                state['first'] = False
                return r
            return save_pick(kinds)
        self.pick, self.ip = pick, (lambda: inplace)
        n0 = len(self.oplist)
        try:
            getattr(self, 'g_' + name)()
        finally:
            self.pick, self.ip = save_pick, save_ip
        return self.oplist[n0:]

    def g_qmq(self):
        """Query, mutate in place, same query again: whatever a value answered before an in-place change (a rendering,
        a search, a piece, an iteration, ...) it must answer afresh afterwards - state remembered on the object or in
        the module between calls must never show."""
        import copy as _copy
        r = self.pick('S')
        if not r or not self.room(10):
            return
        qs = [q for q in self.rng.sample(self.QMQ_QUERIES, 2) if hasattr(self, 'g_' + q)]
        if self.w.get('strip', 0) >= 1 and self.rng.random() < 0.4:
            qs = [self.rng.choice(['strip', 'rmfix', 'split', 'query', 'partition'])] + qs[:1]
        asked = []
        for q in qs:
            asked += self._with_subject(r, q, False)
        asked = [o for o in asked if o.get('r') == r and not o.get('inplace') and 'tag' not in o
                 and not any(k in o for k in ('other', 'new', 'items', 'src'))]
        if not asked:
            return
        text_changers = ['pad', 'case', 'iadd', 'assign_str', 'replace', 'expandtabs', 'clip', 'strip', 'rmfix']
        for _ in range(self.rng.choice([1, 1, 2])):
            # two thirds: a mutator that changes the TEXT (what searches, pieces and strips depend on) or the table length
            mname = self.rng.choice(text_changers) if self.rng.random() < 0.66 else self.rng.choice(self.QMQ_MUTATORS)
            n = self.length(r)
            if mname == 'clip':
                self.do({'op': 'clip', 'r': r, 'start': self.rng.choice([None, 0, 0, 1]), 'end': self.rng.choice([None, 0, n - 1, -1, self.bound(r)]), 'inplace': True})
            elif mname == 'pad':
                o = {'op': 'pad', 'r': r, 'm': self.rng.choice(['ljust', 'rjust', 'center', 'zfill']), 'width': n + self.rng.randint(1, 4), 'inplace': True}
                if o['m'] != 'zfill':
                    fills = [' ', ' ', '-', 'a']
                    for q_ in asked:        # a fill character that an earlier strip / search was about
                        if q_['op'] == 'strip':
                            fills += list(q_.get('chars') or ' ')[:2] * 3
                        elif q_['op'] in ('query', 'split', 'partition', 'rmfix') and (q_.get('sub') or q_.get('sep') or q_.get('s')):
                            fills += [(q_.get('sub') or q_.get('sep') or q_.get('s'))[0]] * 2
                    o['fill'] = self.rng.choice(fills)
                    o['extend'] = self.rng.random() < 0.6
                self.do(o)
            elif mname == 'case':
                self.do({'op': 'case', 'r': r, 'm': self.rng.choice(['upper', 'swapcase', 'lower', 'title', 'capitalize']), 'inplace': True})
            else:
                self._with_subject(r, mname, True)
        for o in asked:
            if self.room(8):
                self.do(_copy.deepcopy(o))

    def g_parse_twice(self):
        """The same conversion (raw text with escape sequences, or text + settings) made twice, the first result changed in
        place in between: the second result must equal a snapshot of the first taken at once."""
        if not self.room(8):
            return
        t = self.text(1)
        forms, S = self.settings()
        e = self.do({'op': 'new', 'cls': 'S', 'text': t, 'sets': forms, 'S': S})
        if e['out'] != 'ok' or not e['res']:
            return
        if self.rng.random() < 0.7:
            q = ''.join(chr(c) for c in self.m.snaps[e['res'][0]]['q'])
            again = {'op': 'new', 'cls': 'S', 'text': q, 'sets': [], 'S': []}
        else:
            again = {'op': 'new', 'cls': 'S', 'text': t, 'sets': forms, 'S': S}
        import copy as _copy
        first = self.do(_copy.deepcopy(again))
        if first['out'] != 'ok' or not first['res']:
            return
        r = first['res'][0]
        snap = self.do({'op': 'copy', 'r': r})['res'][0]
        n = self.length(r)
        if n:
            forms2, S2 = self.settings()
            self.do({'op': 'apply', 'r': r, 'sets': forms2, 'S': S2, 'start': self.rng.choice([0, 0, 1]), 'end': self.rng.choice([None, n, n - 1]),
                     'top': self.rng.random() < 0.7})
            if self.rng.random() < 0.4:
                self._with_subject(r, self.rng.choice(['remove', 'iadd', 'pad', 'clip', 'simplify']), True)
        second = self.do(_copy.deepcopy(again))
        if second['out'] == 'ok' and second['res']:
            self.do({'op': 'twincheck', 'a': [snap], 'b': [second['res'][0]], 'tag': 'again'})

    def epilogue(self, names):
        """Run the given probe generators on every live library object."""
        for r in self.regs_of('SA'):
            for nm in names:
                save = self.pick
                self.pick = lambda kinds='SA', _r=r: _r
                try:
                    self._attempt(getattr(self, 'g_' + nm))
                finally:
                    self.pick = save

    def _attempt(self, fn):
        """Run one generator.  Generators take the result register of a step they have just made for granted; when that
        step failed on the implementation (its outcome is logged and judged like any other) the rest of the generator is
        abandoned instead of crashing the driver."""
        try:
            fn()
        except (IndexError, KeyError):
            pass

    def step(self):
        names = list(self.w)
        name = self.rng.choices(names, [self.w[k] for k in names])[0]
        self._attempt(getattr(self, 'g_' + name))

    def run(self, nops, start=2, epilogue=()):
        for _ in range(start):
            self._attempt(self.g_new)
        guard = 0
        while len(self.oplist) < nops and guard < nops * 4:
            guard += 1
            self.step()
        if epilogue:
            self.epilogue(epilogue)
        return self.oplist


W_BASE = {'new': 1.0, 'new_from': 0.5, 'apply': 3, 'remove': 2, 'clear': 0.2, 'slice': 2, 'index': 0.7, 'clip': 0.7,
          'iter': 0.2, 'crossed_stops': 0.5, 'esc_in_base': 0.4, 'cut_tail': 0.4, 'astr_of_source': 0.3, 'qmq': 0.6, 'parse_twice': 0.2, 'add': 1.5, 'iadd': 1.5, 'join': 0.7, 'split_rejoin': 0.7, 'copy': 0.8, 'render': 0.5, 'iter_join': 0.3}


def weights(**over):
    w = dict(W_BASE)
    w.update(over)
    return w


PROFILES = {
    'C01': weights(render=0, render8=1.5, apply=4, remove=2, slice=1.5, add=1.5, iadd=1.5, copy=0.3, many_end=0.8, clear_over=0.8, astr_of_source=1.0, same_form_nested=1.0, crossed_stops=0.8),
    'C15': weights(render=0, render8=3, iadd=3.5, add=1, apply=3, remove=1.5, new=2, slice=1, clip=0.7, replace=0.7, pad=0.5,
                   simplify=0.4, copy=0.3, many_end=0.6, clear_over=0.6),
    'C03': weights(render=0, reparse=1.2, simplify=1.2, apply=4, remove=2, parse_twice=0.8, many_end=1.0, clear_over=0.8, esc_in_base=0.8),
    'C10': dict(new=1.5, case=2, pad=2, strip=2, rmfix=2, replace=2, expandtabs=1, split=2.5, splitlines=1.5, partition=2, query=8,
                assign_str=0.5, apply=0.5, qmq=1.2, esc_in_base=1.0),
    'C11': dict(nonuniform=2.5, strip_enclosed=1.5, new=0.5, case=1.5, strip=2, rmfix=2, replace=3.5, expandtabs=1, split=3.5, splitlines=1.5,
                partition=2.5, assign_str=1.5, apply=1.5, remove=0.5, add=0.5, qmq=1.2, crossed_stops=0.5, cut_tail=0.8, esc_in_base=1.0),
    'C12': dict(nonuniform=2, new=1, pad=5, pad_nested=1.5, pad_pair=1.5, pad_huge=0.2, fmt_huge=0.1, fmt=5, apply=2, remove=0.5, slice=0.5, add=0.5, qmq=1.0, crossed_stops=0.4),
    'C16': weights(matching=6, apply_match=1.0, apply=3, remove=1, slice=0.5, render=0.2, case=1.5, copy=0.3, match_case_match=1.5, matching_adjacent=1.5),
    'C17': weights(find_settings=5, settings_at=2.5, apply=4, remove=2, slice=0.5, add=0.7, iadd=0.7, pad=1.2, assign_str=0.6, grow_then_slice=1.5, find_overlap=1.5, find_pair=2.5, shrink_then_find=1.5,
                   strip=0.5, new_from=0.8),
    'C04': weights(iter_twice=1.2, slice=5, index=2, clip=2, iter=1.5, iter_join=0.6, apply=3, remove=1.5, pad=0.8, assign_str=0.6, strip=0.4,
                   same_form_nested=1.2, grow_then_slice=1.2),
    'C05': weights(add=4, iadd=4, join=2, split_rejoin=2, slice=2, iter_join=1.0, shared_objects=0.8, empty_accumulator=1.0, seam_stop_order=1.0, seam_order=1.2, same_form_nested=1.0, join_plain_escapes=1.0),
    'C06': weights(apply=6, remove=1.5, slice=1, restart_leftover=1.5, bottom_at_begin=1.5, same_form_nested=1.5, apply_match=0.7),
    'C07': weights(remove=4, remove_edge=2.5, apply=5, clear=0.3, remove_prefixlike=1.2, remove_disjoint=1.2),
    'C08': weights(empty_accumulator=0.8, parse_twice=1.5, copy=3, eq=0.8, add=2.5, iadd=2.5, join=1.5, slice=3, new_from=2, replace=2, pad=0.7, strip=0.5, split=0.5, fmt=0.7,
                   matching=0.5, case=0.3),
    'C09': weights(iter_join=1.0, iadd=2.5, replace=1.0, pad=2.0, pad_nested=1.0, pad_huge=0.15, fmt_huge=0.1, pad_overflow=0.25, remove_edge=0.7, restart_leftover=0.5, shared_objects=0.8, split=0.7, partition=0.5, strip=0.5, rmfix=0.5, case=0.3,
                   assign_str=0.5, query=0.5, matching=0.5, simplify=0.3, expandtabs=0.3, splitlines=0.3),
}


# ---- C01: enumerated family of adjacent style states ---------------------------------------------
GROUP_CODES = {
    'bold': (['1', '2'], '22'), 'ital': (['3'], '23'), 'ul': (['4', '21'], '24'), 'blink': (['5', '6'], '25'),
    'swap': (['7'], '27'), 'hide': (['8'], '28'), 'cross': (['9'], '29'), 'font': (['11', '20'], '10'),
    'space': (['26'], '50'), 'box': (['51', '52'], '54'), 'over': (['53'], '55'),
    'fg': (['31', '38;5;1', '38;2;1;2;3', '97'], '39'), 'bg': (['41', '48;5;2', '107'], '49'),
    'ulc': (['58;5;3', '58;2;1;2;3'], '59'),
}


def style_options(g):
    sets, clr = GROUP_CODES[g]
    x, y = sets[0], sets[-1]
    return [[], [x], [y], [clr], [x, clr], [clr, x], [x, y]]


def family_cases(groups=None):
    """(per-character style lists) for 2-3 characters over one group or a pair of groups."""
    gs = sorted(GROUP_CODES) if groups is None else groups
    cases = []
    for g in gs:
        opts = style_options(g)
        for a in opts:
            for b_ in opts:
                cases.append([a, b_])
                for c in (opts[0], opts[1], opts[3]):
                    cases.append([a, b_, c])
    for i, g in enumerate(gs):
        for h in gs[i + 1:]:
            og, oh = style_options(g)[:4], style_options(h)[:4]
            for a in og:
                for b_ in oh:
                    for c in og:
                        for d in oh:
                            cases.append([a + b_, c + d])
                            cases.append([b_ + a, d + c])
    return cases


def build_styles(g, styles, shared):
    """Create an AnsiString whose k-th character reports exactly styles[k] (one instance per character, or one
    instance spanning adjacent characters that share a leading setting when shared)."""
    n = len(styles)
    e = g.do({'op': 'new', 'cls': 'S', 'text': 'abc'[:n], 'sets': [], 'S': []})
    r = e['res'][0]
    depth = max(len(s) for s in styles)
    for lvl in range(depth):
        k = 0
        while k < n:
            if lvl < len(styles[k]):
                code = styles[k][lvl]
                j = k + 1
                if shared:
                    while j < n and lvl < len(styles[j]) and styles[j][lvl] == code and styles[j][:lvl] == styles[k][:lvl]:
                        j += 1
                g.do({'op': 'apply', 'r': r, 'sets': [{'k': 'aset', 'v': code}], 'S': [code], 'start': k, 'end': j, 'top': True})
                k = j
            else:
                k += 1
    return r


def triple_cases(groups=None):
    """Three characters over an ordered pair of groups (g, h), with and without a third setting K that stays on
    (so that the optimiser emits differences instead of a reset): stale-state bugs need 'on, off, on again'."""
    gs = sorted(GROUP_CODES) if groups is None else groups
    cases = []
    for g in gs:
        for h in gs:
            if g == h:
                continue
            xg, xh = GROUP_CODES[g][0][0], GROUP_CODES[h][0][0]
            yg = GROUP_CODES[g][0][-1]
            third = next(k for k in ('ital', 'cross', 'over') if k not in (g, h))
            K = GROUP_CODES[third][0][0]
            for keep in ([K], []):
                cases.append([keep + [xg, xh], keep, keep + [xg]])
                cases.append([keep + [xg, xh], keep + [xh], keep + [xg, xh]])
                cases.append([keep + [xg], keep, keep + [xg, xh]])
                cases.append([keep + [xg, xh], keep + [yg], keep + [xh]])
                cases.append([keep + [xh, xg], keep + [xh], keep + [xg]])
    return cases


def stack_cases():
    """The same setting below and above a conflicting one (x, y, x), with several settings of other groups ending at the same
    index (so that 'reset and re-emit everything' is what the renderer chooses)."""
    cases = []
    for g in ('fg', 'bg', 'bold', 'ul', 'font'):
        x, y = GROUP_CODES[g][0][0], GROUP_CODES[g][0][-1]
        others = [GROUP_CODES[k][0][0] for k in ('ital', 'cross', 'over', 'blink') if k != g]
        for n_other in (0, 1, 2, 3, 4):
            k = others[:n_other]
            cases.append([k + [x, y, x], [x, y, x]])
            cases.append([[x, y, x] + k, [x, y, x]])
            cases.append([k + [x, y, x], [x, y, x], k + [y, x, y]])
            cases.append([[x, y] + k, [x, y, x], [x]])
    return cases


def keep_clear_cases():
    """A clearing setting (39, 22, 24, ...) laid over an active setting of its group while one to three settings of
    OTHER groups stay on unchanged (short ones, and a long rgb one): the renderer's choice between emitting the
    difference and 'reset and re-emit everything' depends on how long what stays on is."""
    cases = []
    gs = sorted(GROUP_CODES)
    for g in gs:
        x, clr = GROUP_CODES[g][0][0], GROUP_CODES[g][1]
        rest = [h for h in ('bold', 'ital', 'cross', 'fg', 'bg') if h != g]
        keeps = [[GROUP_CODES[rest[0]][0][0]], [GROUP_CODES[h][0][0] for h in rest[:2]], [GROUP_CODES[h][0][0] for h in rest[:3]],
                 ['48;2;10;20;30' if g != 'bg' else '38;2;10;20;30']]
        for K in keeps:
            cases.append([K + [x], K + [x, clr], K + [x]])
            cases.append([[x] + K, [x] + K + [clr]])
            cases.append([K + [clr], K + [clr, x], K])
            cases.append([K + [x, clr], K + [x]])
    return cases


def many_end_cases():
    """Three to six settings of different groups end at one index while another setting continues across it."""
    cases = []
    pool = ['1', '3', '4', '9', '53', '58;5;3', '5', '7']
    for c in ('41', '1', '38;2;1;2;3', '31', '4'):
        others = [o for o in pool if o != c]
        for k in (3, 4, 5, 6):
            o = others[:k]
            cases.append([[c] + o, [c]])
            cases.append([o + [c], [c], o[:2] + [c]])
            cases.append([[c], [c] + o, [c]])
    return cases


def pair_end_cases(all_second=False):
    """Settings of an ordered pair of groups (g, h) beginning together and ending together inside the text - alone,
    and while a third setting stays on: the order in which the renderer clears them must survive render -> parse."""
    cases = []
    gs = sorted(GROUP_CODES)
    for g in gs:
        for h in gs:
            if g == h:
                continue
            third = next(k for k in ('ital', 'cross', 'over') if k not in (g, h))
            K = GROUP_CODES[third][0][0]
            for xg in GROUP_CODES[g][0][:2 if all_second else 1]:
                for xh in GROUP_CODES[h][0][:2 if all_second else 1]:
                    # a long setting kept on makes the renderer emit the individual clear codes instead of a reset
                    L = '48;2;10;20;30' if 'bg' not in (g, h) else ('38;2;10;20;30' if 'fg' not in (g, h) else '58;2;10;20;30')
                    cases.append([[xg, xh], []])
                    cases.append([[K, xg, xh], [K]])
                    cases.append([[L, xg, xh], [L]])
                    cases.append([[L, xg, xh], [L, xh], [L]])
                    # a valid but unparsable verbatim setting makes str() the NON-optimised rendering (resets), so that
                    # simplify() first parses resets and then its own clear codes
                    cases.append([[L, '4:3', xg, xh], [L, '4:3']])
    return cases


def gen_roundtrip_family(m, rng, job):
    g = Gen(m, rng, W_BASE)
    cases = job['cases']
    styles = cases[(job['base'] - 1 + job['_k']) % len(cases)]
    r = build_styles(g, styles, shared=rng.random() < 0.7)
    g.do({'op': 'reparse', 'r': r, 'cls': 'S'})
    c = g.do({'op': 'copy', 'r': r})['res'][0]
    g.do({'op': 'simplify', 'r': c})
    g.do({'op': 'simplify', 'r': c})
    # the same value reached through its non-optimised rendering (resets instead of clear codes)
    e = g.do({'op': 'reparse', 'r': r, 'cls': 'S', 'opt': False})
    if e['out'] == 'ok' and e['res']:
        g.do({'op': 'simplify', 'r': e['res'][0]})
        g.do({'op': 'simplify', 'r': e['res'][0]})
    return g.oplist, {}


def gen_render_family(m, rng, job):
    g = Gen(m, rng, W_BASE)
    cases = job['cases']
    styles = cases[(job['base'] - 1 + job['_k']) % len(cases)]
    r = build_styles(g, styles, shared=rng.random() < 0.5)
    for k in range(8):
        g.do({'op': 'render', 'r': r, 'how': 'to_str', 'optimize': bool(k & 1), 'reset_start': bool(k & 2),
              'reset_end': bool(k & 4)})
    return g.oplist, {}


# ---- C02: inputs with escape sequences -----------------------------------------------------------
SEQ_ALPHA = ['1', '31', '1;31', '38;5;214', '1;38;5;214', '38;5;214;1', '4;58;5;9', '38;2;1;2;3', '38;2;1;2;3;4',
             '48;5;7;22', '0', '', '22', '39', '0;1', '1;0', '99', '1;99;31', '21;24', '2;22;3', '38;5', '1;38;2;5;6',
             '58;2;9;8;7;53', '10', '11;10', '91;39;34', '1;38;2;255;128;64;48;2;100;100;100', '1;3;4;5;7;9;21;31;41;53;58;5;200;97;107',
             '107', '1;107', '106;107;3', '38;2;255;255;255;48;2;0;0;0;58;2;128;128;128',
             '1;;3', ';1', '1;', '31;;1', ';', '38;5;;1', ';;', '4;;']
SEQ_NONSGR = ['\x1b[2J', '\x1b[H', '\x1b[1;2H', '\x1b[K', '\x1b[>4;2m', '\x1b[?1m', '\x1b[=1;31m', '\x1b[<m',
              '\x1b[1 m', '\x1b[1;31 m', '\x1b[+1m', '\x1b[-0m', '\x1b[ m', '\x1b[1 q']
SEQ_OUT_OF_CLAIM = ['\x1b[38;7;1m', '\x1b[38;5;300m', '\x1b[1:2m']


def random_sgr(rng):
    if rng.random() < 0.6:
        return rng.choice(SEQ_ALPHA)
    codes = ['0', '1', '2', '3', '4', '22', '24', '31', '34', '39', '41', '49', '38;5;1', '48;5;2', '58;5;3', '38;2;1;2;3',
             '99', '38', '38;5', '5', '2']
    return ';'.join(rng.choice(codes) for _ in range(rng.randint(1, 4)))


def gen_parse_input(m, rng, job):
    g = Gen(m, rng, W_BASE)
    parts = []
    for _ in range(rng.randint(1, 6)):
        x = rng.random()
        if x < 0.45:
            parts.append(''.join(rng.choice('ab m[1;') for _ in range(rng.randint(1, 3))))
        elif x < 0.9:
            parts.append('\x1b[' + random_sgr(rng) + 'm')
        elif x < 0.95:
            parts.append(rng.choice(SEQ_NONSGR))
        elif x < 0.975:
            parts.append(rng.choice(['\x1b[1', '\x1b[', '\x1b[31;', '\x1b', '\x1b[31\n', '\x1b[\t', '\x1b[1\u00e9', '\x1b[3\x7f']))     # aborted by whatever comes next
        else:
            parts.append(rng.choice(SEQ_OUT_OF_CLAIM))
    if rng.random() < 0.1:
        parts.append(rng.choice(['\x1b[1', '\x1b[', '\x1b', '\x1b[31;']))
    text = ''.join(parts)
    if rng.random() < 0.3:
        # the same code lists first go through the lenient path (explicit settings): parsing text must not depend on that
        import re as _re
        for body in _re.findall('\x1b\\[([0-9;]*)m', text)[:2]:
            if body and not body.startswith(';') and ';;' not in body and not body.endswith(';'):
                g.do({'op': 'pgs', 'codes': [int(x) for x in body.split(';')], 'enc': 'str', 'adderr': True})
    e = g.do({'op': 'new', 'cls': 'A' if rng.random() < 0.3 else 'S', 'text': text, 'sets': [], 'S': []})
    if e['out'] == 'ok' and rng.random() < 0.5:
        r = e['res'][0]
        g.do({'op': 'render', 'r': r, 'how': 'str'})
        g.do({'op': 'reparse', 'r': r})
    if e['out'] == 'ok' and e['res'] and rng.random() < 0.3:
        # the same raw text converted again after the first result was changed in place (a conversion must not depend
        # on what happened to an earlier result of the same text)
        r = e['res'][0]
        if m.kinds[r] == 'S' and g.length(r) > 0:
            n = g.length(r)
            cps_ = [0] + g.change_points(r) + [n]
            forms, S = g.settings()
            g.do({'op': 'apply', 'r': r, 'sets': forms, 'S': S, 'start': rng.choice(cps_), 'end': rng.choice([None] + cps_),
                  'top': rng.random() < 0.7})
            if rng.random() < 0.3:
                g.do({'op': 'remove', 'r': r, 'all': True, 'start': rng.choice(cps_), 'end': None})
        g.do({'op': 'new', 'cls': 'A' if rng.random() < 0.3 else 'S', 'text': text, 'sets': [], 'S': []})
    return g.oplist, {}
