"""C13: every constructor form and every shared method executed on an AnsiString and on its AnsiStr twin."""
from .history import Gen, W_BASE, PAL_CORE, PAL_MORE


class TwinGen(Gen):
    def pair_new(self):
        """Constructor forms: str / AnsiString / AnsiStr source, with or without settings."""
        forms, S = self.settings() if self.rng.random() < 0.7 else ([], [])
        x = self.rng.random()
        if x < 0.4 or not self.regs_of('SA'):
            text = self.text()
            if self.rng.random() < 0.15:
                ws = ['\u00a0', '\u2003', '\x1c', '\u2028', '\x85', ' ', '\t']
                text = self.rng.choice(ws) + text + self.rng.choice(ws + [''])
            if self.rng.random() < 0.25:
                text = '\x1b[1;38;5;3m' + text + '\x1b[m' + self.text()
            s = self.do({'op': 'new', 'cls': 'S', 'text': text, 'sets': forms, 'S': S})
            a = self.do({'op': 'new', 'cls': 'A', 'text': text, 'sets': forms, 'S': S})
        else:
            src = self.pick('SA')
            s = self.do({'op': 'new', 'cls': 'S', 'src': src, 'sets': forms, 'S': S})
            a = self.do({'op': 'new', 'cls': 'A', 'src': src, 'sets': forms, 'S': S})
        if s['out'] != 'ok' or a['out'] != 'ok':
            return None
        rs, ra = s['res'][0], a['res'][0]
        self.do({'op': 'twincheck', 'a': [ra], 'b': [rs]})
        if 'src' in self.oplist[-2] and self.m.kinds[self.oplist[-2]['src']] == 'S' and self.rng.random() < 0.6:
            # the source keeps living: change it in place afterwards - the new objects must not follow
            src = self.oplist[-2]['src']
            f2, S2 = self.settings()
            self.do({'op': 'apply', 'r': src, 'sets': f2, 'S': S2, 'start': 0, 'end': None, 'top': True})
            if self.rng.random() < 0.5:
                self.do({'op': 'case', 'r': src, 'm': 'upper', 'inplace': True})
            self.do({'op': 'twincheck', 'a': [ra], 'b': [rs]})
        return rs, ra

    def both(self, rs, ra, o, inplace_only=False, has_inplace=False):
        """Run op description o on the AnsiString rs (non-in-place form) and on the AnsiStr ra."""
        os_, oa = dict(o), dict(o)
        if inplace_only:
            c = self.do({'op': 'copy', 'r': rs})
            os_['r'] = c['res'][0]
        else:
            os_['r'] = rs
            if has_inplace:
                os_['inplace'] = False
        oa['r'] = ra
        es = self.do(os_)
        ea = self.do(oa)
        if es['out'] != ea['out']:
            self.do({'op': 'twincheck', 'a': [], 'b': [1]})       # outcomes differ: count mismatch clause fails
            return None
        if es['out'] != 'ok':
            return rs, ra
        if inplace_only:
            res_s = [os_['r']]
        else:
            res_s = es['res']
        res_a = ea['res']
        if o['op'] in ('format_matching', 'unformat_matching'):
            res_a = res_a[:1]
            res_s = [os_['r']]
        self.do({'op': 'twincheck', 'a': res_a, 'b': res_s})
        if len(res_s) == 1 and len(res_a) == 1:
            return res_s[0], res_a[0]
        return rs, ra

    def step_pair(self, rs, ra):
        r = self.rng.random
        n = self.length(rs)
        ch = self.rng.choice(['apply', 'apply', 'remove', 'clear', 'slice', 'slice', 'index', 'clip', 'add', 'iadd', 'join',
                              'simplify', 'matching', 'copy', 'strip', 'strip', 'pad', 'pad2', 'case', 'replace', 'split', 'partition',
                              'rmfix', 'render', 'render', 'probe'])
        if not self.room(8):
            return rs, ra
        if ch == 'apply':
            forms, S = self.settings()
            return self.both(rs, ra, {'op': 'apply', 'sets': forms, 'S': S, 'start': self.bound(rs, False), 'end': self.bound(rs),
                                      'top': r() < 0.6}, inplace_only=True)
        if ch == 'remove':
            o = {'op': 'remove', 'start': self.bound(rs, False), 'end': self.bound(rs)}
            if r() < 0.4:
                o['all'] = True
            else:
                o['sets'], o['S'] = self.settings()
            return self.both(rs, ra, o, inplace_only=True)
        if ch == 'clear' and r() < 0.5:
            # == / != on a pair that renders alike but reports different settings (a conflicting setting underneath), on
            # copies, and on the pair itself
            cs = self.do({'op': 'copy', 'r': rs})['res'][0]
            ca = self.do({'op': 'new', 'cls': 'A', 'src': ra, 'sets': [], 'S': []})
            if ca['out'] == 'ok' and n:
                ca = ca['res'][0]
                if r() < 0.6:
                    under = self.rng.choice(['31', '34', '1', '41'])
                    o = {'op': 'apply', 'sets': [{'k': 'aset', 'v': under}], 'S': [under], 'start': 0, 'end': None, 'top': r() < 0.5}
                    os_ = dict(o, r=cs)
                    self.do(os_)
                    ea = self.do(dict(o, r=ca))
                    if ea['out'] == 'ok' and ea['res']:
                        ca = ea['res'][0]
                self.do({'op': 'twin_eq', 's1': rs, 's2': cs, 'a1': ra, 'a2': ca})
            return rs, ra
        if ch == 'clear':
            return self.both(rs, ra, {'op': 'clear'}, inplace_only=True)
        if ch == 'slice':
            return self.both(rs, ra, {'op': 'slice', 'start': self.bound(rs), 'stop': self.bound(rs)})
        if ch == 'index':
            return self.both(rs, ra, {'op': 'index', 'i': self.rng.randint(-n - 1, n)})
        if ch == 'clip':
            return self.both(rs, ra, {'op': 'clip', 'start': self.bound(rs), 'end': self.bound(rs)}, has_inplace=True)
        if ch in ('add', 'iadd'):
            other = self.other_operand(rs)
            if not other:
                return rs, ra
            return self.both(rs, ra, {'op': ch, 'other': other}, inplace_only=(ch == 'iadd'))
        if ch == 'join' and r() < 0.3:
            # all-plain-str arguments, some carrying raw escape sequences left open at their end
            items = []
            for _ in range(self.rng.randint(1, 3)):
                t = self.rng.choice(['\x1b[1mw:', 'ab\x1b[31m', 'x', '\x1b[mz', self.text()])
                items.append(self.do({'op': 'lit', 'text': t})['res'][0])
            es = self.do({'op': 'join', 'cls': 'S', 'items': items})
            ea = self.do({'op': 'join', 'cls': 'A', 'items': items})
            if es['out'] == 'ok' and ea['out'] == 'ok':
                self.do({'op': 'twincheck', 'a': ea['res'], 'b': es['res']})
                return es['res'][0], ea['res'][0]
            return rs, ra
        if ch == 'join':
            items = [self.pick('SAP') for _ in range(self.rng.randint(1, 3))]
            es = self.do({'op': 'join', 'cls': 'S', 'items': [rs] + items})
            ea = self.do({'op': 'join', 'cls': 'A', 'items': [ra] + items})
            if es['out'] == 'ok' and ea['out'] == 'ok':
                self.do({'op': 'twincheck', 'a': ea['res'], 'b': es['res']})
                return es['res'][0], ea['res'][0]
            return rs, ra
        if ch == 'simplify':
            return self.both(rs, ra, {'op': 'simplify'}, inplace_only=True)
        if ch == 'matching':
            regex = r() < 0.5
            o = {'op': 'unformat_matching' if r() < 0.4 else 'format_matching',
                 'pat': self.rng.choice(self.PATTERNS_RE if regex else self.PATTERNS_PLAIN), 'regex': regex,
                 'match_case': r() < 0.5, 'count': self.rng.choice([-1, -1, 1, 2])}
            o['sets'], o['S'] = self.settings()
            return self.both(rs, ra, o, inplace_only=True)
        if ch == 'copy':
            return self.both(rs, ra, {'op': 'copy'})
        if ch == 'strip':
            t = self.base_text(rs)
            chars = None if r() < 0.4 else self.rng.choice(['a', 'ab', ' -', t[:1] + t[-1:], ' '])
            return self.both(rs, ra, {'op': 'strip', 'm': self.rng.choice(['strip', 'lstrip', 'rstrip', 'rstrip']), 'chars': chars}, has_inplace=True)
        if ch in ('pad', 'pad2'):
            w = n + self.rng.randint(0, 4)
            fill = self.rng.choice([None, '*', '0', ':'])
            meths = self.rng.sample(['ljust', 'rjust', 'center', 'zfill'], 2 if ch == 'pad2' else 1)
            out = (rs, ra)
            for meth in meths:       # pad2: two different justifications of the SAME objects with the same width and fill
                o = {'op': 'pad', 'm': meth, 'width': w}
                if meth != 'zfill' and fill is not None:
                    o['fill'] = fill
                if meth != 'zfill' and r() < 0.4:
                    o['extend'] = r() < 0.5
                out = self.both(rs, ra, o, has_inplace=True) or out
            return out
        if ch == 'case':
            return self.both(rs, ra, {'op': 'case', 'm': self.rng.choice(['upper', 'lower', 'title', 'swapcase', 'capitalize', 'casefold'])}, has_inplace=True)
        if ch == 'replace':
            new = self.do({'op': 'lit', 'text': self.rng.choice(['', '+', 'xy'])})['res'][0] if r() < 0.5 else self.pick('SAP')
            if not new:
                return rs, ra
            return self.both(rs, ra, {'op': 'replace', 'old': self.substr(rs, 1, 2), 'new': new, 'count': self.rng.choice([-1, -1, 1])}, has_inplace=True)
        if ch == 'split':
            sep = None if r() < 0.3 else self.substr(rs, 1, 2)
            self.both(rs, ra, {'op': 'split', 'm': self.rng.choice(['split', 'rsplit']), 'sep': sep, 'maxsplit': self.rng.choice([-1, 1, 2])})
            return rs, ra
        if ch == 'partition':
            self.both(rs, ra, {'op': 'partition', 'm': self.rng.choice(['partition', 'rpartition']), 'sep': self.substr(rs, 1, 2)})
            return rs, ra
        if ch == 'rmfix':
            t = self.base_text(rs)
            meth = self.rng.choice(['removeprefix', 'removesuffix'])
            k = self.rng.randint(0, 2)
            return self.both(rs, ra, {'op': 'rmfix', 'm': meth, 's': t[:k] if meth == 'removeprefix' else t[len(t) - k:]}, has_inplace=True)
        if ch == 'render':
            # the three rendering routes under the same flags must give the very same string for both classes
            flags = {'optimize': r() < 0.5, 'reset_start': r() < 0.5, 'reset_end': r() < 0.5}
            es = self.do(dict({'op': 'render', 'r': rs, 'how': 'to_str'}, **flags))
            ea = self.do(dict({'op': 'render', 'r': ra, 'how': 'to_str'}, **flags))
            self.do({'op': 'twinrender', 'a': ea['o'].get('out', [0]), 'b': es['o'].get('out', [1])})
            return rs, ra
        if ch == 'probe':
            # text appended afterwards must come out the same for both classes (nothing left open)
            x = self.do({'op': 'lit', 'text': 'xy'})['res'][0]
            self.both(rs, ra, {'op': 'add', 'other': x})
            return rs, ra
        return rs, ra


def gen_twins(m, rng, job):
    g = TwinGen(m, rng, W_BASE, maxlen=job.get('maxlen', 6), more=0.4, odd=job.get('odd', 0.05))
    g.long = 0.01
    pair = None
    for _ in range(job.get('nops', 6)):
        try:
            if pair is None or rng.random() < 0.2:
                pair = g.pair_new() or pair
                continue
            pair = g.step_pair(*pair) or pair
        except (IndexError, KeyError):
            pass          # a step made for granted failed on the implementation: logged and judged; go on with the pair
    # every AnsiStr register: render through the three routes
    for r in g.regs_of('A')[:6]:
        g.do({'op': 'render', 'r': r, 'how': rng.choice(['str', 'format', 'to_str'])})
    return g.oplist, {}
