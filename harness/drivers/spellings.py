"""C14: spellings of settings.  Leaves are generated here; spec/Settings.tla says what they denote."""
from .. import ops

COMPS = [('fg', ''), ('fg', 'fg_'), ('bg', 'bg_'), ('ul', 'ul_'), ('dul', 'dul_')]
COMP_KW = {'fg': 'FOREGROUND', 'bg': 'BACKGROUND', 'ul': 'UNDERLINE', 'dul': 'DOUBLE_UNDERLINE'}


def spell(name, case, sep):
    s = name if case == 'U' else name.lower() if case == 'l' else ''.join(
        c.upper() if i % 2 == 0 else c.lower() for i, c in enumerate(name))
    return s.replace('_', sep)


def name_leaves(lib, name):
    out = [{'k': 'name', 'v': name, 'mname': name, 'known': 1, 'as': 'fmt'}]
    for case in 'Ulm':
        for sep in ('_', ' ', '-'):
            out.append({'k': 'name', 'v': spell(name, case, sep), 'mname': name, 'known': 1})
    return out


def run(m, o, oplist):
    oplist.append(o)
    return ops.run(m, o)


def gen_names(m, rng, job):
    """A block of member names x 10 spellings (exhaustive over the enum when the campaign covers all blocks)."""
    names = job['names']
    lo = (job['base'] - 1 + job['_k']) * job['block']
    oplist = []
    for name in names[lo:lo + job['block']]:
        for leaf in name_leaves(m.lib, name):
            run(m, {'op': 'scrub', 'leaves': [leaf], 'single': rng.random() < 0.5}, oplist)
    return oplist, {}


def gen_codes(m, rng, job):
    """Every code 0..255 as int, str, verbatim; negative ints; runs with the colour group at any position."""
    oplist = []
    for c in range(0, 256):
        for enc in ('int', 'str'):
            run(m, {'op': 'scrub', 'leaves': [{'k': 'ints', 'v': [c], 'enc': enc}], 'single': True}, oplist)
        run(m, {'op': 'scrub', 'leaves': [{'k': 'verb', 'v': str(c), 'as': rng.choice(['bracket', 'aset'])}]}, oplist)
    for c in (-1, -5, -256):
        run(m, {'op': 'scrub', 'leaves': [{'k': 'ints', 'v': [c], 'enc': 'int'}]}, oplist)
        run(m, {'op': 'scrub', 'leaves': [{'k': 'ints', 'v': [c], 'enc': 'int'}], 'empty': True}, oplist)
        run(m, {'op': 'scrub', 'leaves': [{'k': 'ints', 'v': [1, c], 'enc': 'joined'}]}, oplist)
    singles = [1, 4, 22, 31, 39, 53, 97, 107]
    groups = [[38, 5, 200], [48, 5, 0], [58, 5, 255], [38, 2, 1, 2, 3], [48, 2, 255, 0, 9], [58, 2, 0, 0, 0]]
    # colour ARGUMENTS that look like the start of another colour function (38/48/58 followed by 2 or 5)
    groups += [[38, 2, 48, 5, 200], [48, 2, 0, 38, 2], [38, 5, 38], [58, 2, 58, 5, 5], [38, 2, 38, 2, 38], [48, 5, 48], [38, 2, 5, 38, 5]]
    for g in groups:
        for a in ([], [4], [1, 31]):
            for z in ([], [1], [22, 4]):
                for enc in ('int', 'str', 'joined', 'mixed'):
                    run(m, {'op': 'scrub', 'leaves': [{'k': 'ints', 'v': a + g + z, 'enc': enc}]}, oplist)
        # the run of integer codes of one colour split over nesting levels ("arbitrarily nested ... flattened in order")
        for at in range(1, len(g)):
            for kind in ('list', 'tuple'):
                for both in (False, True):
                    run(m, {'op': 'scrub', 'leaves': [{'k': 'ints', 'v': [1] + g + [4], 'enc': 'int', 'split': {'at': at + 1, 'kind': kind, 'both': both}}]}, oplist)
        for g2 in groups[:3] + groups[6:9]:
            run(m, {'op': 'scrub', 'leaves': [{'k': 'ints', 'v': [rng.choice(singles)] + g + g2, 'enc': rng.choice(['int', 'joined'])}]}, oplist)
    return oplist, {}


def fmtnum(v, hexa):
    return ('0x%X' % v if hexa == 'X' else '0x%x' % v) if hexa else str(v)


def gen_colours(m, rng, job):
    """rgb()/color256() helper calls and their string spellings: boundary values, hex/decimal, brackets, spaces."""
    oplist = []
    vals = [0, 1, 127, 255, 256, 300, 0x10, 0xff, 38, 48, 58, 5, 2]
    trip = [(0, 0, 0), (255, 255, 255), (1, 2, 3), (256, 0, 255), (300, 128, 999), (16, 32, 48), (0xAB, 0xCD, 0xEF),
            (48, 5, 200), (38, 2, 7), (0, 38, 2), (58, 5, 5), (38, 5, 38)]
    single = [0, 1, 0xFF, 0x100, 0x8A2BE2, 0xFFFFFF, 0x1000000, 0x12345678 & 0xFFFFFF]
    for comp, pre in COMPS:
        api_rgb = {'': 'rgb', 'fg_': 'fg_rgb', 'bg_': 'bg_rgb', 'ul_': 'ul_rgb', 'dul_': 'dul_rgb'}[pre]
        api_c = {'': 'color256', 'fg_': 'fg_color256', 'bg_': 'bg_color256', 'ul_': 'ul_color256', 'dul_': 'dul_color256'}[pre]
        for t in trip:
            leaf = {'k': 'rgbc', 'fn': 'rgb', 'comp': comp, 'args': list(t), 'api': api_rgb}
            if pre == '' and comp != 'fg':
                continue
            run(m, {'op': 'scrub', 'leaves': [leaf]}, oplist)
            if pre == '':
                for ck in COMP_KW:
                    run(m, {'op': 'scrub', 'leaves': [{'k': 'rgbc', 'fn': 'rgb', 'comp': ck, 'args': list(t), 'api': 'rgb', 'comp_kw': COMP_KW[ck]}]}, oplist)
            for hexa in ('', 'x'):
                for o_, c_ in (('', ''), ('[', ']'), ('(', ')')):
                    for sp in ('', ' '):
                        s = '%srgb(%s%s%s)' % (pre, o_, (',' + sp).join(sp + fmtnum(v, hexa) for v in t), c_)
                        run(m, {'op': 'scrub', 'leaves': [{'k': 'rgbs', 'v': s}], 'single': rng.random() < 0.5}, oplist)
        for v in single:
            run(m, {'op': 'scrub', 'leaves': [{'k': 'rgbc', 'fn': 'rgb', 'comp': comp, 'args': [v], 'api': api_rgb}]}, oplist)
            for hexa in ('', 'x', 'X'):
                run(m, {'op': 'scrub', 'leaves': [{'k': 'rgbs', 'v': '%srgb(%s)' % (pre, fmtnum(v, hexa))}]}, oplist)
        for v in vals:
            if pre == '':
                # the generic helpers with an explicit component, American and British spelling
                for ck in COMP_KW:
                    for api in ('color256', 'colour256'):
                        run(m, {'op': 'scrub', 'leaves': [{'k': 'rgbc', 'fn': 'c256', 'comp': ck, 'args': [v], 'api': api, 'comp_kw': COMP_KW[ck]}]}, oplist)
            run(m, {'op': 'scrub', 'leaves': [{'k': 'rgbc', 'fn': 'c256', 'comp': comp, 'args': [v], 'api': api_c}]}, oplist)
            run(m, {'op': 'scrub', 'leaves': [{'k': 'rgbc', 'fn': 'c256', 'comp': comp, 'args': [v], 'api': api_c.replace('color', 'colour')}]}, oplist)
            for word in ('color', 'colour'):
                for hexa in ('', 'x'):
                    for o_, c_ in (('', ''), ('[', ']')):
                        s = '%s%s256(%s %s%s)' % (pre, word, o_, fmtnum(v, hexa), c_)
                        run(m, {'op': 'scrub', 'leaves': [{'k': 'rgbs', 'v': s}]}, oplist)
    # malformed / mixed notations
    bad = ['rgb(0b1,0,0)', 'color256(0B1)', 'rgb(0o7,1,2)', 'rgb()1,2,3)', 'ul_color256()5)', 'rgb(1,2,3))', 'rgb(1,2)', 'rgb()', 'rgb(1,2,3,4)', 'rgb(a,b,c)', 'rgb(ff,0,0)', 'rgb(0x,1,2)', 'rgb(1,2,3', 'rgb 1,2,3', 'RGB(1,2,3)',
           'rgb(0X10,1,2)', 'rgb(-1,2,3)', 'color256()', 'color256(1,2)', 'color256(x)', 'xx_rgb(1,2,3)', 'rgb(1;2;3)', 'rgb(1,2,3) ',
           ' rgb(1,2,3)', 'colr256(1)', 'rgb(1.5,2,3)', 'rgb(0x10, 2f, 3)']
    for s in bad:
        run(m, {'op': 'scrub', 'leaves': [{'k': 'rgbs', 'v': s}]}, oplist)
        run(m, {'op': 'scrub', 'leaves': [{'k': 'rgbs', 'v': s}], 'empty': True}, oplist)
    mixed = ['rgb(010, 020, 030)', 'color256(007)', 'rgb(0255)', 'bg_rgb([0x0A, 020, 0])', 'rgb(0x10, 32, 48)', 'rgb(16, 0x20, 48)', 'rgb(1, 0xff, 3)', 'bg_rgb(0x1,0x2,3)', 'ul_rgb( 0xFF , 0x63 , 0x47 )',
             'rgb([100, 232, 170])', 'bg_rgb([100, 232, 170])', 'ul_rgb([255, 99, 71])', 'rgb(9055202)', 'dul_rgb(0xFF, 0x80, 0x00)']
    for s in mixed:
        run(m, {'op': 'scrub', 'leaves': [{'k': 'rgbs', 'v': s}]}, oplist)
    return oplist, {}


def random_leaf(lib, rng, names):
    x = rng.random()
    if x < 0.35:
        name = rng.choice(names)
        if rng.random() < 0.3:
            return {'k': 'name', 'v': name, 'mname': name, 'known': 1, 'as': 'fmt'}
        return {'k': 'name', 'v': spell(name, rng.choice('Ulm'), rng.choice(['_', ' ', '-'])), 'mname': name, 'known': 1}
    if x < 0.6:
        v = rng.choice([[1], [31], [4, 38, 5, 200], [38, 5, 1, 1], [1, 48, 2, 1, 2, 3, 4], [58, 5, 9], [22, 39], [97], [0], [38, 5, 0, 48, 5, 1]])
        return {'k': 'ints', 'v': v, 'enc': rng.choice(['int', 'str', 'joined', 'mixed'])}
    if x < 0.72:
        return {'k': 'verb', 'v': rng.choice(['38;5;214', '1', '1;31', 'x', '0', '38;5']), 'as': rng.choice(['bracket', 'aset'])}
    if x < 0.86:
        comp, pre = rng.choice(COMPS)
        if rng.random() < 0.5:
            return {'k': 'rgbs', 'v': '%srgb(%d, %d,%d)' % (pre, rng.randint(0, 300), rng.randint(0, 255), rng.randint(0, 255))}
        return {'k': 'rgbs', 'v': '%scolo%sr256(%s)' % (pre, rng.choice(['', 'u']), rng.choice(['7', '0xff', '255', '0']))}
    comp, pre = rng.choice(COMPS[1:])
    api = {'fg_': 'fg_rgb', 'bg_': 'bg_rgb', 'ul_': 'ul_rgb', 'dul_': 'dul_rgb'}[pre]
    return {'k': 'rgbc', 'fn': 'rgb', 'comp': comp, 'args': [rng.randint(-5, 300), rng.randint(0, 255), rng.randint(0, 255)], 'api': api}


def random_shape(rng, n):
    shape = []
    spans = []
    for _ in range(rng.randint(0, 3)):
        a = rng.randrange(n)
        b_ = rng.randrange(a, n)
        # keep non-crossing: accept if nested in or disjoint from or containing all previous spans
        if all((b_ < x or a > y) or (a <= x and y <= b_) or (x <= a and b_ <= y) for x, y in spans):
            spans.append((a, b_))
    spans.sort(key=lambda s: (s[1] - s[0]))
    for a, b_ in spans:
        shape.append((a, b_, rng.choice(['list', 'tuple'])))
    return shape


def gen_mixtures(m, rng, job):
    """Random mixtures of forms, nested to depth <= 3, joined into one ';' string where possible; bad names, bad
    types and a self-containing list."""
    names = job['names']
    oplist = []
    for _ in range(job['block']):
        n = rng.randint(1, 4)
        leaves = [random_leaf(m.lib, rng, names) for _ in range(n)]
        o = {'op': 'scrub', 'leaves': leaves, 'shape': random_shape(rng, n), 'join_str': rng.random() < 0.3}
        x = rng.random()
        if x > 0.9:
            o['poison_first'] = rng.choice(['notacolor', 'neg'])
        if x < 0.05:
            o['selfref'] = True
        elif x < 0.1:
            o['badtype'] = rng.choice(['float', 'dict'])
        elif x < 0.18:
            bad = rng.choice(['notacolor', 'bold_', 're d', 'bold;;x', 'rgb'])
            leaves.insert(rng.randrange(n + 1), {'k': 'name', 'v': bad, 'mname': '', 'known': 0})
            o['shape'] = []
        if x < 0.18 and rng.random() < 0.4 and 'poison_first' not in o:
            o['empty'] = True           # a bad setting is an error even when the text is empty
        run(m, o, oplist)
    return oplist, {}


# ---- the same history spelled two ways ------------------------------------------------------------
CLASSES = [
    # each: alternative spellings (python forms) of one denotation, and the denotation
    ([{'k': 'fmt', 'v': 'BOLD'}, {'k': 'str', 'v': 'bold'}, {'k': 'int', 'v': 1}, {'k': 'str', 'v': 'Bold'}, {'k': 'str', 'v': '1'},
      {'k': 'str_astr', 'v': 'bold'}, {'k': 'aset_astr', 'v': '1'}], ['1']),
    ([{'k': 'fmt', 'v': 'FG_RED'}, {'k': 'str', 'v': 'red'}, {'k': 'int', 'v': 31}, {'k': 'str', 'v': 'FG RED'}, {'k': 'str', 'v': 'fg-red'}], ['31']),
    ([{'k': 'fmt', 'v': 'FG_BLUE'}, {'k': 'str', 'v': 'blue'}, {'k': 'int', 'v': 34}, {'k': 'list', 'v': [{'k': 'str', 'v': 'BLUE'}]}], ['34']),
    ([{'k': 'call', 'fn': 'rgb', 'v': [10, 20, 30]}, {'k': 'str', 'v': 'rgb(10,20,30)'}, {'k': 'str', 'v': 'rgb(0x0A, 0x14, 0x1E)'},
      {'k': 'str', 'v': 'fg_rgb([10, 20, 30])'}, {'k': 'list', 'v': [{'k': 'int', 'v': 38}, {'k': 'int', 'v': 2}, {'k': 'int', 'v': 10}, {'k': 'int', 'v': 20}, {'k': 'int', 'v': 30}]},
      {'k': 'str', 'v': '38;2;10;20;30'}, {'k': 'call', 'fn': 'rgb', 'v': [0x0A141E]}], ['38;2;10;20;30']),
    ([{'k': 'call', 'fn': 'bg_color256', 'v': [7]}, {'k': 'str', 'v': 'bg_color256(7)'}, {'k': 'str', 'v': 'bg_colour256(0x7)'},
      {'k': 'str', 'v': '48;5;7'}, {'k': 'tuple', 'v': [{'k': 'int', 'v': 48}, {'k': 'int', 'v': 5}, {'k': 'int', 'v': 7}]}], ['48;5;7']),
    ([{'k': 'fmt', 'v': 'UL_RED'}, {'k': 'str', 'v': 'ul_red'}, {'k': 'str', 'v': 'UL-RED'}], ['4', '58;5;9']),
    ([{'k': 'call', 'fn': 'ul_rgb', 'v': [1, 2, 3]}, {'k': 'str', 'v': 'ul_rgb(1,2,3)'}, {'k': 'str', 'v': 'ul_rgb(0x010203)'}], ['4', '58;2;1;2;3']),
    ([{'k': 'fmt', 'v': 'NO_BOLD_FAINT'}, {'k': 'str', 'v': 'no bold faint'}, {'k': 'int', 'v': 22}], ['22']),
    # colour arguments that look like the start of another colour function
    ([{'k': 'call', 'fn': 'rgb', 'v': [48, 5, 200]}, {'k': 'str', 'v': 'rgb(48,5,200)'}, {'k': 'str', 'v': '38;2;48;5;200'},
      {'k': 'list', 'v': [{'k': 'int', 'v': 38}, {'k': 'int', 'v': 2}, {'k': 'int', 'v': 48}, {'k': 'int', 'v': 5}, {'k': 'int', 'v': 200}]}], ['38;2;48;5;200']),
    ([{'k': 'call', 'fn': 'bg_color256', 'v': [38]}, {'k': 'str', 'v': 'bg_color256(38)'}, {'k': 'str', 'v': '48;5;38'},
      {'k': 'tuple', 'v': [{'k': 'int', 'v': 48}, {'k': 'int', 'v': 5}, {'k': 'int', 'v': 38}]}], ['48;5;38']),
    ([{'k': 'str', 'v': 'bold;red'}, {'k': 'str', 'v': '1;31'}, {'k': 'list', 'v': [{'k': 'str', 'v': 'bold'}, {'k': 'fmt', 'v': 'FG_RED'}]},
      {'k': 'list', 'v': [{'k': 'str', 'v': '1;31'}]}, {'k': 'tuple', 'v': [{'k': 'int', 'v': 1}, {'k': 'int', 'v': 31}]}], ['1', '31']),
]


def gen_spelled_history(m, rng, job):
    """One random history of apply/remove operations executed twice from the same text - every settings argument spelled
    in one way on the first object and in another way on the second - then the two objects are compared."""
    oplist = []
    text = ''.join(rng.choice('ab -') for _ in range(rng.randint(3, 8)))
    n = len(text)
    ra = run(m, {'op': 'new', 'cls': 'S', 'text': text, 'sets': [], 'S': []}, oplist)['res'][0]
    rb = run(m, {'op': 'new', 'cls': 'S', 'text': text, 'sets': [], 'S': []}, oplist)['res'][0]
    fav = rng.sample(range(len(CLASSES)), 3)
    fixed = {}          # spelling used on each side for a class (the same spelling is reused: shared-object bugs need that)
    for _ in range(rng.randint(2, job.get('nops', 6))):
        ci = rng.choice(fav) if rng.random() < 0.8 else rng.randrange(len(CLASSES))
        forms, S = CLASSES[ci]
        if ci not in fixed or rng.random() < 0.2:
            fixed[ci] = rng.sample(forms, 2)
        fa, fb = fixed[ci]
        a_ = rng.randint(0, n - 1)
        b_ = rng.randint(a_ + 1, n)
        if rng.random() < 0.75:
            top = rng.random() < 0.7
            for r_, f in ((ra, fa), (rb, fb)):
                run(m, {'op': 'apply', 'r': r_, 'sets': [f], 'S': S, 'start': a_, 'end': b_, 'top': top, 'tag': 'sp',
                        'single': rng.random() < 0.5}, oplist)
        else:
            for r_, f in ((ra, fa), (rb, fb)):
                run(m, {'op': 'remove', 'r': r_, 'sets': [f], 'S': S, 'start': a_, 'end': b_, 'tag': 'sp'}, oplist)
        run(m, {'op': 'twincheck', 'a': [ra], 'b': [rb], 'tag': 'spell'}, oplist)
    return oplist, {}
