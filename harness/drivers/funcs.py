"""Exhaustive / enumerated inputs for the function-shaped properties (C15, C18, C19)."""
import itertools

from .. import ops

CODE_ALPHA = [0, 1, 2, 5, 22, 31, 38, 39, 48, 58, 99, 214, -1]      # -1: an empty parameter
CS_ALPHA = ['\x1b', '[', '1', ';', '?', ' ', 'm', 'H', 'a']
SET_ALPHA = ['0', '1', '2', '3', '5', '8', ';', ' ', '?', ':', 'm']


def nth_word(alpha, idx):
    """idx-th word (shortlex, idx 0 = empty word) over alpha."""
    n = len(alpha)
    length, count = 0, 1
    while idx >= count:
        idx -= count
        length += 1
        count = n ** length
    w = []
    for _ in range(length):
        w.append(alpha[idx % n])
        idx //= n
    return list(reversed(w))


def count_words(alpha, maxlen):
    return sum(len(alpha) ** k for k in range(maxlen + 1))


def block(job):
    lo = (job['base'] - 1 + job['_k']) * job['block']
    return range(lo, min(lo + job['block'], job['total_inputs']))


def gen_pgs(m, rng, job):
    oplist = []
    for idx in block(job):
        codes = nth_word(CODE_ALPHA, idx)
        for enc in ('str', 'ints', 'strs'):
            # strict, lenient, strict again: a result must not depend on earlier calls with the other flag
            for adderr in (False, True, False):
                o = {'op': 'pgs', 'codes': codes, 'enc': enc, 'adderr': adderr}
                oplist.append(o)
                ops.run(m, o)
    return oplist, {}


def gen_pgs_codes(m, rng, job):
    """Every code 0..120 alone, after/before another code, and on top of a prior state (settings_to_dict)."""
    oplist = []
    for c in range(0, 121):
        for codes in ([c], [1, c], [c, 31], [44, c]):
            for enc in ('str', 'ints'):
                o = {'op': 'pgs', 'codes': codes, 'enc': enc, 'adderr': False}
                oplist.append(o)
                ops.run(m, o)
        if c not in (38, 48, 58):
            o = {'op': 's2d', 'S': ['3', str(c)], 'old': ['1', '44', '31']}
            oplist.append(o)
            ops.run(m, o)
    return oplist, {}


S2D_TEXTS = ['1', '2', '22', '31', '39', '38;5;1', '38;2;1;2;3', '48;5;2', '0', '4', '24', '58;5;3', '59', '10', '11', '107', '97', '53', '55',
             '26', '50', '51', '54', '38;5;2', '58;2;7;8;9', '7', '27', '9', '29', '8', '28', '5', '25', '3', '23', '21']


def gen_s2d(m, rng, job):
    oplist = []
    for _ in range(job['block']):
        S = [rng.choice(S2D_TEXTS) for _ in range(rng.randint(0, 4))]
        old = [rng.choice([t for t in S2D_TEXTS if t != '0']) for _ in range(rng.randint(0, 3))]
        o = {'op': 's2d', 'S': S, 'old': old}
        oplist.append(o)
        ops.run(m, o)
    return oplist, {}


def gen_pcs(m, rng, job):
    oplist = []
    for idx in block(job):
        s = ''.join(nth_word(CS_ALPHA, idx))
        # the same string again under flags used before: a parse must not depend on earlier parses
        for allow, acc in ((True, None), (False, None), (False, 'm'), (True, 'mH'), (True, None), (False, 'm')):
            o = {'op': 'pcs', 's': s, 'allow': allow, 'acc': acc}
            oplist.append(o)
            ops.run(m, o)
    return oplist, {}


def gen_pcs_boundary(m, rng, job):
    """Every code point around the byte classes of a control sequence, as body byte / final byte / after ESC."""
    oplist = []
    cpsel = list(range(0x1a, 0x82)) + [0, 7, 9, 10, 0x9b, 0xa0, 0xff, 0x100, 0x2028]
    for c in cpsel:
        ch = chr(c)
        for s in ('a\x1b[1' + ch + 'b\x1b[2m', '\x1b[' + ch, '\x1b[' + ch + ch + 'x', 'x\x1b' + ch + '[1m', '\x1b[3' + ch + 'xy\x1b[1' + ch):
            for allow, acc in ((True, None), (False, None), (False, 'm'), (True, ch)):
                o = {'op': 'pcs', 's': s, 'allow': allow, 'acc': acc}
                oplist.append(o)
                ops.run(m, o)
    return oplist, {}


HELPERS1 = ['cursor_up_str', 'cursor_down_str', 'cursor_forward_str', 'cursor_backward_str', 'cursor_back_str',
            'cursor_next_line_str', 'cursor_previous_line_str', 'cursor_horizontal_absolute_str', 'erase_in_display_str',
            'erase_in_line_str', 'scroll_up_str', 'scroll_down_str']


def gen_helper(m, rng, job):
    oplist = []
    vals = [0, 1, 2, 3, 9, 10, 11, 99, 100, 255, 1000, 65535, 123456789]
    for name in HELPERS1:
        for v in vals:
            o = {'op': 'helper', 'name': name, 'args': [v]}
            oplist.append(o)
            ops.run(m, o)
    for r in vals:
        for c in (0, 1, 7, 80, 1000):
            o = {'op': 'helper', 'name': 'cursor_position_str', 'args': [r, c]}
            oplist.append(o)
            ops.run(m, o)
    return oplist, {}


def gen_aset(m, rng, job):
    oplist = []
    for idx in block(job):
        if idx == 0:
            continue            # the empty text is rejected by the constructor (ValueError), not classified
        text = ''.join(nth_word(SET_ALPHA, idx))
        o = {'op': 'aset', 'text': text}
        oplist.append(o)
        ops.run(m, o)
    return oplist, {}


ASET_EXTRA = ['38;5;255', '38;5;256', '48;2;255;255;255', '48;2;255;256;0', '58;5;0', '58;2;0;0;0', '38;5', '38;2;1;2', '38',
              '38;5;1;1', '38;2;1;2;3;4', '107', '108', '56', '0', '00', '01', '001;31', '1;31', '255', '256', '@', '~', '\x7f',
              '\x3f', '\x40', '1\x7e', '21', '53', '55', '59', '90', '97', '98', '100', '38;6;1', '39', '49', '9', '29', '54',
              '1m', 'm1', '[', ']', '1\x1b', 'é', '１', '1_0', '+1', '-1', ' 1', '1 ', '1\t', '0x1']


def gen_aset_extra(m, rng, job):
    oplist = []
    for text in ASET_EXTRA:
        o = {'op': 'aset', 'text': text}
        oplist.append(o)
        ops.run(m, o)
    for c in range(0, 256):
        o = {'op': 'aset', 'text': str(c)}
        oplist.append(o)
        ops.run(m, o)
    return oplist, {}
