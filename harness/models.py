"""Design-model runs: TLC on spec/AnsiSystem.tla (reference model + contracts on every transition), and the export of
one history per transition for replay on the real objects."""
import json
import os
import shutil
import time

from . import tlcrun

PALETTE = ['1', '22', '31', '34']          # text ids 1..4 of the design model
ALPHABET = [97, 45]                          # 'a', '-'

CONFIGS = {
    # name: (MaxLen, MaxRegs, MaxDepth, Palette ids, MaxTotalLen)
    'quick': (2, 2, 2, [3, 4], 3),            # 50 k transitions: exported and replayed (sampled) in the quick tier
    'small': (2, 2, 2, [1, 2, 3], 4),         # 164 k transitions: exported and replayed completely in the thorough tier
    'deep': (2, 2, 3, [3, 4], 3),             # 6.5 M transitions: contracts on every transition (thorough tier, no export)
}


def write_cfg(path, name, export, with_parse=False):
    ml, mr, md, pal, mt = CONFIGS[name]
    with open(path, 'w') as f:
        f.write('SPECIFICATION Spec\nCONSTANTS\n  MaxLen = %d\n  MaxRegs = %d\n  MaxDepth = %d\n  Alphabet = {%s}\n'
                '  Palette = {%s}\n  MaxTotalLen = %d\n  WithParse = %s\nINVARIANT HeapShape\nINVARIANT NoOverlong\n'
                'PROPERTY ContractsHold\nVIEW View\nCHECK_DEADLOCK FALSE\n'
                % (ml, mr, md, ', '.join(map(str, ALPHABET)), ', '.join(map(str, pal)), mt, 'TRUE' if with_parse else 'FALSE'))
        if export:
            f.write('ACTION_CONSTRAINT Export\n')


def run_model(name, export=False, timeout=3000, with_parse=False):
    """-> dict(model, ok, states, transitions, detail, what, histories?)"""
    d = tlcrun.scratch('verif-model-')
    try:
        snap = os.path.join(d, 'spec')
        os.makedirs(snap)
        for fn in os.listdir(tlcrun.SPEC):
            if fn.endswith('.tla'):
                shutil.copy(os.path.join(tlcrun.SPEC, fn), os.path.join(snap, fn))
        cfg = os.path.join(snap, 'MC.cfg')
        write_cfg(cfg, name, export, with_parse)
        tf = os.path.join(d, 'texts.json')
        with open(tf, 'w') as f:
            json.dump([[ord(c) for c in t] for t in PALETTE], f)
        rc, out, wall = tlcrun.run_tlc('AnsiSystem.tla', 'MC.cfg', env={'VERIF_TEXTS': tf}, workers=1 if export else 16,
                                       timeout=timeout, heap='8g', cwd=snap)
        ok = 'Model checking completed. No error has been found.' in out
        states, trans = tlcrun.parse_stats(out)
        res = {'model': 'AnsiSystem/' + name + ('+parse' if with_parse else ''), 'ok': ok, 'states': states, 'transitions': trans, 'wall_s': round(wall, 1),
               'what': 'reference model, MaxLen=%d MaxRegs=%d MaxDepth=%d palette=%s: every contract clause on every transition, '
                       'HeapShape, NoOverlong' % (CONFIGS[name][0], CONFIGS[name][1], CONFIGS[name][2],
                                                  [PALETTE[i - 1] for i in CONFIGS[name][3]]),
               'detail': '' if ok else '\n'.join(l for l in out.splitlines() if not l.startswith(('Semantic', 'Parsing', 'Linting')))[-3000:]}
        if export:
            res['histories'] = [r['h'] for r in tlcrun.parse_printed_json(out)]
        return res
    finally:
        shutil.rmtree(d, ignore_errors=True)


CP_CONFIGS = {
    # name: (MaxLen, MaxRegs, MaxDepth, Alphabet, Palette ids, MaxTotalLen)
    'cp_quick': (3, 2, 2, [97], [3, 4], 4),          # 26 k transitions, ~8 s
    'cp_deep': (3, 2, 3, [97], [3, 4], 4),           # 4.8 M transitions, ~3 min on 16 workers
    'cp_wide': (2, 2, 2, [97, 98], [1, 3, 4], 4),    # two letters, three settings; with the parse actions 2.1 M transitions, ~2 min
    # seeded: register 1 starts as the result of two range applications (every pair of ranges, on top / underneath);
    # the first step makes a second value, the second step is any operation: histories of length 4 of the shape
    # new; apply; apply; (new|slice|copy); op
    'cp_seeded': (2, 2, 2, [97], [3, 4], 4, True, True),
    'cp_seeded3': (3, 2, 2, [97], [3, 4], 5, True, True),
}


def run_cp(name, timeout=3000, sabotage=None, with_parse=False):
    """TLC on spec/CPSystem.tla: the transcribed change-point algorithms; WF, NoDup, refinement of every contract clause,
    tables of other registers untouched."""
    ml, mr, md, alpha, pal, mt = CP_CONFIGS[name][:6]
    seeded, narrow = (CP_CONFIGS[name] + (False, False))[6:8]
    d = tlcrun.scratch('verif-cp-')
    try:
        snap = os.path.join(d, 'spec')
        os.makedirs(snap)
        for fn in os.listdir(tlcrun.SPEC):
            if fn.endswith('.tla'):
                shutil.copy(os.path.join(tlcrun.SPEC, fn), os.path.join(snap, fn))
        if sabotage:
            p = os.path.join(snap, 'ChangePoints.tla')
            src = open(p).read()
            assert sabotage[0] in src
            open(p, 'w').write(src.replace(sabotage[0], sabotage[1]))
        with open(os.path.join(snap, 'MC.cfg'), 'w') as f:
            f.write('SPECIFICATION Spec\nCONSTANTS\n  MaxLen = %d\n  MaxRegs = %d\n  MaxDepth = %d\n  Alphabet = {%s}\n'
                    '  Palette = {%s}\n  MaxTotalLen = %d\n  WithParse = %s\n  Seeded = %s\n  Narrow = %s\nINVARIANT WF\nINVARIANT NoDup\nPROPERTY Refines\nPROPERTY TablesFramed\n'
                    'VIEW View\nCHECK_DEADLOCK FALSE\n' % (ml, mr, md, ', '.join(map(str, alpha)), ', '.join(map(str, pal)), mt,
                                                          'TRUE' if with_parse else 'FALSE', 'TRUE' if seeded else 'FALSE', 'TRUE' if narrow else 'FALSE'))
        tf = os.path.join(d, 'texts.json')
        with open(tf, 'w') as f:
            json.dump([[ord(c) for c in t] for t in PALETTE], f)
        rc, out, wall = tlcrun.run_tlc('CPSystem.tla', 'MC.cfg', env={'VERIF_TEXTS': tf}, workers=16, timeout=timeout, heap='8g', cwd=snap)
        ok = 'Model checking completed. No error has been found.' in out
        states, trans = tlcrun.parse_stats(out)
        return {'model': 'CPSystem/' + name + ('+parse' if with_parse else ''), 'ok': ok, 'states': states, 'transitions': trans, 'wall_s': round(wall, 1),
                'what': 'transcribed algorithms (apply, remove, __getitem__, __iadd__, ljust/rjust/center, copy, replace, to_str with the optimiser' + (', set_ansi_str/parse_graphic_sequence/simplify' if with_parse else '') + '), texts <= %d, '
                        '%d registers, depth %d, palette %s: WF (the library self-check), NoDup, refinement of every contract clause, '
                        'TablesFramed on every transition' % (ml, mr, md, [PALETTE[i - 1] for i in pal]),
                'detail': '' if ok else ('\n'.join(l for l in out.splitlines() if l.startswith('Error') or 'violated' in l)[:1500] or out[-1500:])}
    finally:
        shutil.rmtree(d, ignore_errors=True)


def run_cp_sim(seconds=240, seed=1, with_parse=False, seeded=False):
    """tlc -simulate on CPSystem with larger constants (texts <= 4 over {a,b}, 3 registers, 6 operations, palette
    {1,31,34}): random walks, every invariant and action property checked on every step; runs until the time limit."""
    import subprocess
    d = tlcrun.scratch('verif-cpsim-')
    try:
        snap = os.path.join(d, 'spec')
        os.makedirs(snap)
        for fn in os.listdir(tlcrun.SPEC):
            if fn.endswith('.tla'):
                shutil.copy(os.path.join(tlcrun.SPEC, fn), os.path.join(snap, fn))
        with open(os.path.join(snap, 'MC.cfg'), 'w') as f:
            f.write('SPECIFICATION Spec\nCONSTANTS\n  MaxLen = 4\n  MaxRegs = 3\n  MaxDepth = 6\n  Alphabet = {97, 98}\n'
                    '  Palette = {1, 3, 4}\n  MaxTotalLen = 8\n  WithParse = ' + ('TRUE' if with_parse else 'FALSE') + '\n  Seeded = ' + ('TRUE' if seeded else 'FALSE') + '\n  Narrow = FALSE\nINVARIANT WF\nINVARIANT NoDup\nPROPERTY Refines\nPROPERTY TablesFramed\n'
                    'CHECK_DEADLOCK FALSE\n')
        tf = os.path.join(d, 'texts.json')
        with open(tf, 'w') as f:
            json.dump([[ord(c) for c in t] for t in PALETTE], f)
        cmd = ['timeout', str(seconds * 3)] + tlcrun.tlc_cmd('CPSystem.tla', 'MC.cfg', 16, os.path.join(d, 'meta'),
                                                         ['-simulate', 'num=%d' % max(4, seconds // 3), '-depth', '7', '-seed', str(seed)], '6g')
        e = dict(os.environ, VERIF_TEXTS=tf)
        p = subprocess.run(cmd, cwd=snap, env=e, stdout=subprocess.PIPE, stderr=subprocess.STDOUT, text=True)
        out = p.stdout
        bad = [l for l in out.splitlines() if l.startswith('Error')]
        import re as _re
        m = None
        for m in _re.finditer(r'Progress: (\d+) states checked, (\d+) traces generated', out):
            pass
        states = int(m.group(1)) if m else 0
        traces = int(m.group(2)) if m else 0
        m2 = _re.search(r'The number of states generated: (\d+)', out)
        if m2:
            states = max(states, int(m2.group(1)))
        ok = not bad and states > 0
        return {'model': 'CPSystem/simulate', 'ok': ok, 'states': states, 'transitions': states, 'wall_s': seconds,
                'what': 'tlc -simulate for %d s: %d random behaviours of up to 6 operations over texts <= 4 on {a,b}, 3 registers, palette '
                        "['1','31','34']: WF, NoDup, refinement of every contract clause, TablesFramed on every step" % (seconds, traces),
                'detail': '' if ok else '\n'.join(bad)[:1500] + out[-1500:]}
    finally:
        shutil.rmtree(d, ignore_errors=True)


def desc_to_op(dsc):
    """Model operation description -> op description of harness/ops.py."""
    def forms(S):
        return [{'k': 'aset', 'v': PALETTE[t - 1]} for t in S], [PALETTE[t - 1] for t in S]

    def ob(x):
        return None if not x else x[0]
    op = dsc['op']
    if op == 'new':
        f, S = forms(dsc['S'])
        return {'op': 'new', 'cls': 'S', 'text': ''.join(chr(c) for c in dsc['text']), 'sets': f, 'S': S}
    if op == 'copy':
        return {'op': 'copy', 'r': dsc['r']}
    if op == 'apply':
        f, S = forms(dsc['S'])
        return {'op': 'apply', 'r': dsc['r'], 'sets': f, 'S': S, 'start': ob(dsc['start']), 'end': ob(dsc['end']), 'top': bool(dsc['top'])}
    if op == 'remove':
        o = {'op': 'remove', 'r': dsc['r'], 'start': ob(dsc['start']), 'end': ob(dsc['end'])}
        if dsc['all']:
            o['all'] = True
        else:
            o['sets'], o['S'] = forms(dsc['S'])
        return o
    if op == 'clear':
        return {'op': 'clear', 'r': dsc['r']}
    if op == 'slice':
        return {'op': 'slice', 'r': dsc['r'], 'start': ob(dsc['start']), 'stop': ob(dsc['stop'])}
    if op in ('add', 'iadd'):
        return {'op': op, 'r': dsc['r'], 'other': dsc['other']}
    if op == 'pad':
        return {'op': 'pad', 'r': dsc['r'], 'm': dsc['m'], 'width': dsc['width'], 'fill': chr(dsc['fill']), 'extend': bool(dsc['extend'])}
    if op == 'strip':
        return {'op': 'strip', 'r': dsc['r'], 'm': dsc['m'], 'chars': ''.join(chr(c) for c in dsc['chars'])}
    if op == 'reparse':
        return {'op': 'reparse', 'r': dsc['r'], 'cls': 'S'}
    if op == 'simplify':
        return {'op': 'simplify', 'r': dsc['r']}
    if op == 'render':
        fl = dsc['flags']
        return {'op': 'render', 'r': dsc['r'], 'how': 'to_str', 'optimize': bool(fl[0]), 'reset_start': bool(fl[1]), 'reset_end': bool(fl[2])}
    raise ValueError(op)


_cache = {}


def run_for(prop, tier, seed=1):
    """Design runs relevant to a property (the reference model covers the history properties)."""
    if prop in ('C04', 'C05', 'C06', 'C07', 'C08', 'C09'):
        # these checks also export + replay the reference model (checks.model_replay)
        cp = run_cp('cp_deep' if tier == 'thorough' else 'cp_quick')
        sim = [run_cp_sim(240, seed), run_cp_sim(120, seed + 1, seeded=True)] if (tier == 'thorough' and prop in ('C04', 'C05', 'C06', 'C07')) else []
        seeded = [run_cp('cp_seeded')] if (tier == 'thorough' and prop in ('C05', 'C07', 'C09')) else []
        return ([run_model('deep')] if tier == 'thorough' else []) + [cp] + seeded + sim
    if prop == 'C12':
        return [run_model('small' if tier == 'thorough' else 'quick'), run_cp('cp_deep' if tier == 'thorough' else 'cp_quick')]
    if prop in ('C11', 'C17'):
        return [run_cp('cp_wide' if tier == 'thorough' else 'cp_quick')]
    if prop not in ('C01', 'C02', 'C03', 'C15'):
        return []
    name = 'small' if tier == 'thorough' else 'quick'
    runs = [run_model(name, with_parse=prop in ('C02', 'C03'))]
    if prop in ('C01', 'C02', 'C03'):
        runs.append(run_cp('cp_wide' if tier == 'thorough' else 'cp_quick', with_parse=prop in ('C02', 'C03')))
    return runs


def exported_histories(tier):
    name = 'small' if tier == 'thorough' else 'quick'
    r = run_model(name, export=True)
    if not r['ok']:
        raise tlcrun.Machinery('design model export failed: ' + r['detail'][-1500:])
    return r
