"""Design-model runs (TLC on the reference model / transcriptions), per property."""


def run_for(prop, tier):
    return []
