"""Per-property checks: design-model runs with TLC + conformance campaigns on the real code, judged by TLC."""
import json
import os
import sys
import time

from . import campaign, evidence, tlcrun

ROOT = os.path.dirname(os.path.dirname(os.path.abspath(__file__)))
REPLAY_DIR = os.path.join(ROOT, 'evidence', 'replay')
KNOWN = os.path.join(ROOT, 'known_findings.json')

COMMON_ASSUMPTIONS = [
    'TLC (tla2tools 1.8.0) evaluates the TLA+ contracts correctly',
    'the projection (base_str, len, ansi_settings_at, to_str, str.__str__) reports the object state faithfully',
    'violations outside the explored histories/inputs and bounds are not seen',
    'the independent SGR table in spec/SGR.tla is a correct reading of ECMA-48 / the library documentation',
]

# history-driven properties: campaign sizes (histories) per tier, ops per history
HIST = {
    'C04': dict(quick=2000, thorough=16000, nops=10, nops_thorough=14),
    'C05': dict(quick=2000, thorough=16000, nops=10, nops_thorough=14),
    'C06': dict(quick=2000, thorough=16000, nops=9, nops_thorough=14),
    'C07': dict(quick=2000, thorough=16000, nops=9, nops_thorough=14),
    'C08': dict(quick=2000, thorough=16000, nops=10, nops_thorough=16),
    'C09': dict(quick=2000, thorough=16000, nops=12, nops_thorough=16),
    'C10': dict(quick=2500, thorough=20000, nops=14, nops_thorough=18, alpha='aabbA  \t\n--\r\x0b\x0c\x1c\x85\u2028\xe9\xdf\ufb01\u0130\u0149\u01c5', start=2),
    'C11': dict(quick=2500, thorough=20000, nops=12, nops_thorough=16, alpha='aabbbA \t\n-', start=1),
    'C12': dict(quick=2000, thorough=16000, nops=9, nops_thorough=12, start=1),
    'C16': dict(quick=2000, thorough=16000, nops=8, nops_thorough=12, alpha='abAB -\u0130\u017f\u03c3\u03c2\u212a'),
    'C17': dict(quick=2000, thorough=16000, nops=10, nops_thorough=14),
}


def load_known():
    if not os.path.exists(KNOWN):
        return []
    with open(KNOWN) as f:
        return json.load(f).get('findings', [])


def match_known(known, prop, clause, event):
    """An open finding suppresses only violations with its clause, operation and argument signature."""
    for k in known:
        if k.get('status') != 'open' or k['property'] != prop:
            continue
        sig = k['signature']
        if sig.get('clause') not in (None, clause):
            continue
        if sig.get('op') not in (None, event['op']):
            continue
        args = sig.get('args', {})
        if all(event['a'].get(a) == v for a, v in args.items()) and sig.get('tag', event.get('tag')) == event.get('tag'):
            return k
    return None


def write_replay(prop, n, clause, l, row):
    os.makedirs(REPLAY_DIR, exist_ok=True)
    path = os.path.join(REPLAY_DIR, '%s-%d.json' % (prop, n))
    with open(path, 'w') as f:
        json.dump({'property': prop, 'clause': clause, 'event': l, 'kind': 'repo_test' if row.get('repo_test') else 'history',
                   'repo_test': row.get('repo_test'),
                   'oplist': row.get('oplist', [])[:], 'failing_event': row['events'][l - 1] if row.get('events') else None},
                  f, indent=1)
    return path


def summarize(prop, camp):
    """-> (violations [(row, l, clause)], other-property notes, per-clause nontrivial counts)"""
    viol, notes, nt = [], {}, {}
    for row in camp['rows']:
        for k, v in row['nt'].items():
            nt[k] = nt.get(k, 0) + v
        for l, clause in row['fails']:
            if clause.startswith(prop + '.'):
                viol.append((row, l, clause))
            else:
                notes[clause] = notes.get(clause, 0) + 1
                if os.environ.get('VERIF_DUMP_NOTES') and row.get('events'):
                    ev = dict(row['events'][l - 1]); ev.pop('upd', None)
                    print('NOTE-EVENT %s %s' % (clause, json.dumps(ev)[:600]))
                    print('NOTE-OPS %d %s' % (l, json.dumps(row.get('oplist'))[:3000]))
    return viol, notes, nt


def report(prop, tier, seed, t0, camp, design, extra_cov=None, assumptions=()):
    """Common tail of a check: print verdict lines, write evidence, return exit code."""
    if camp['errors']:
        for e in camp['errors']:
            print('MACHINERY: ' + e)
        return 2
    for d in design:
        if not d['ok']:
            print('MACHINERY: design model %s failed: %s' % (d['model'], d['detail'][:2000]))
            return 2
    viol, notes, nt = summarize(prop, camp)
    known = load_known()
    new, seen_known = [], {}
    for row, l, clause in viol:
        ev = row['events'][l - 1]
        k = match_known(known, prop, clause, ev)
        if k:
            seen_known[k['what']] = seen_known.get(k['what'], 0) + 1
        else:
            new.append((row, l, clause))
    for what, cnt in sorted(seen_known.items()):
        print('KNOWN-FINDING: property=%s %s (%d occurrences)' % (prop, what, cnt))
    # distinct (clause, op) pairs; write at most 5 replay files, shortest histories first
    new.sort(key=lambda x: (len(x[0].get('oplist', [])), x[1]))
    shown = set()
    nrep = 0
    for row, l, clause in new:
        key = (clause, row['events'][l - 1]['op'])
        if key in shown or nrep >= 5:
            continue
        shown.add(key)
        nrep += 1
        path = write_replay(prop, nrep, clause, l, row)
        print('VIOLATION property=%s replay=%s clause=%s op=%s' % (prop, path, clause, row['events'][l - 1]['op']))
    own_nt = {k: v for k, v in nt.items() if k.startswith(prop + '.')}
    if not own_nt or sum(own_nt.values()) == 0:
        print('MACHINERY: no non-trivial evaluation of any %s clause (vacuous run)' % prop)
        return 2
    states = camp['states'] + sum(d['states'] for d in design)
    trans = camp['transitions'] + sum(d['transitions'] for d in design)
    cov = {
        'states': states, 'transitions': trans,
        'traces_validated_against_impl': len(camp['rows']),
        'events_validated': camp['events'],
        'samples': camp['samples'][:3] or [{'note': 'no sample'}],
        'clause_nontrivial_evaluations': own_nt,
        'other_property_clause_failures_seen': notes,
        'drift': {'what': 'DRIFT detection: transcribed table algorithms of spec/ChangePoints.tla applied to the logged raw pre-table '
                          'must give the logged raw post-table (a failure is a note, not a violation)',
                  'evaluations': {k: v for k, v in nt.items() if k.startswith('drift.')},
                  'failures': {k: v for k, v in notes.items() if k.startswith('drift.')}},
        'design_models': [{k: d[k] for k in ('model', 'states', 'transitions', 'what')} for d in design],
        'exhaustive': False,
    }
    cov.update(extra_cov or {})
    wall = time.time() - t0
    evidence.write(prop, tier, seed, cov, wall, len(new), COMMON_ASSUMPTIONS + list(assumptions))
    if notes:
        print('note: clauses of other properties failed in these histories: %s' % json.dumps(notes))
    if any(k.startswith('drift.') for k in notes):
        print('DRIFT: the code no longer follows the transcription in spec/ChangePoints.tla for: %s'
              % sorted(k for k in notes if k.startswith('drift.')))
    print('%s %s: %d histories, %d events validated by TLC (%d states), %d violations (%d known), %.1fs'
          % (prop, tier, len(camp['rows']), camp['events'], states, len(new), len(viol) - len(new), wall))
    return 1 if new else 0


def design_runs(prop, tier, seed=1):
    """TLC runs of the design models relevant to the property (filled in by models.py)."""
    from . import models
    return models.run_for(prop, tier, seed)


def model_replay(tier, seed, sample):
    """spec -> code: histories exported by TLC from the reference model (one per transition), replayed on the real objects
    and judged by the same contracts."""
    from . import models
    import random
    r = models.exported_histories(tier)
    hs = r['histories']
    total = len(hs)
    if sample and sample < total:
        hs = random.Random(seed).sample(hs, sample)
    camp = campaign.run_campaign('model_replay', len(hs), seed, hist=hs, per_shard_max=100000)
    info = {'model': r['model'], 'transitions_exported': total, 'histories_replayed_on_impl': len(hs), 'states': r['states'],
            'transitions': r['transitions'], 'what': r['what'] + '; export of one history per transition', 'ok': True, 'detail': ''}
    return camp, info


MODEL_PROPS = ('C04', 'C05', 'C06', 'C07', 'C08', 'C09')


def check_history(prop, tier, seed):
    t0 = time.time()
    cfg = HIST[prop]
    design = design_runs(prop, tier, seed)
    nops = cfg['nops_thorough'] if tier == 'thorough' else cfg['nops']
    camp = campaign.run_campaign('history', cfg[tier], seed, profile=prop, nops=nops, alpha=cfg.get('alpha'),
                                 maxlen=12 if tier == 'thorough' else 8,
                                 odd=0.08 if prop in ('C09', 'C08', 'C07', 'C04') else 0.0,
                                 ctrl=0.12 if prop in ('C10', 'C11') else 0.0)
    extra = {}
    if prop == 'C08':
        # the function-shaped part of "no operation modifies an argument": parse_graphic_sequence with list arguments
        camp = merge(camp, campaign.run_campaign('pgs_codes', 1, seed))
    if prop in ('C08', 'C09'):
        rt = campaign.run_repo_tests()
        camp = merge(camp, rt)
        extra['repository_tests_under_recorder'] = {'pytest': rt.get('pytest_summary'), 'traces': len(rt['rows']), 'events': rt['events']}
    if prop in MODEL_PROPS:
        mc, info = model_replay(tier, seed, None if tier == 'thorough' else 4000)
        camp = merge(camp, mc)
        design = [d for d in design if d['model'] != info['model']] + [info]
        extra.update({'model_histories_replayed': info['histories_replayed_on_impl'], 'model_transitions_exported': info['transitions_exported']})
    return report(prop, tier, seed, t0, camp, design,
                  extra_cov={'rule': 'random histories of public calls (profile %s, <=%d ops, alphabet "ab -", palette of '
                                     'conflicting/equal settings); an evaluation is non-trivial when the clause antecedent '
                                     'holds (range non-empty, styles present, conflict present, ...)' % (prop, nops), **extra})


def replay(prop, path):
    with open(path) as f:
        doc = json.load(f)
    if doc.get('kind') == 'repo_test':
        camp = campaign.run_repo_tests(only=doc['repo_test'])
        bad = [(l, c) for row in camp['rows'] for l, c in row['fails'] if c.startswith(prop + '.')]
        for l, c in bad:
            print('  %s event %d: clause %s fails' % (doc['repo_test'], l, c))
        if bad:
            print('VIOLATION property=%s replay=%s' % (prop, path))
            return 1
        print('replay: no %s clause fails on the current tree' % prop)
        return 0
    v, m = campaign.replay_oplist(doc['oplist'])
    bad = [(l, c) for l, c in v['fails'] if c.startswith(prop + '.')]
    for l, c in v['fails']:
        print('  event %d (%s): clause %s fails' % (l, m.events[l - 1]['op'], c))
    if bad:
        print('VIOLATION property=%s replay=%s' % (prop, path))
        return 1
    print('replay: no %s clause fails on the current tree' % prop)
    return 0


def check_c01(prop, tier, seed):
    from .drivers import history
    t0 = time.time()
    design = design_runs(prop, tier)
    thorough = tier == 'thorough'
    camp = campaign.run_campaign('history', 6000 if thorough else 700, seed, profile='C01',
                                 nops=12 if thorough else 8, maxlen=10 if thorough else 6, more=0.6,
                                 epilogue=('render8',))
    if thorough:
        cases = history.family_cases() + history.triple_cases() + history.stack_cases() + history.keep_clear_cases() + history.many_end_cases()
    else:
        tri = history.triple_cases()
        rnd = __import__('random').Random(seed)
        groups = sorted(history.GROUP_CODES)
        g1 = groups[seed % len(groups)]
        g2 = groups[(seed // len(groups) + 1 + seed) % len(groups)]
        cases = history.family_cases([g1] if g1 == g2 else sorted([g1, g2])) + rnd.sample(tri, 400) + history.stack_cases() + history.keep_clear_cases() + history.many_end_cases()
    fam = campaign.run_campaign('render_family', len(cases), seed + 1, cases=cases, per_shard_max=4000)
    rt = campaign.run_repo_tests()
    merged = merge(camp, fam, rt)
    return report(prop, tier, seed, t0, merged, design,
                  extra_cov={'rule': 'every final value of random histories and every value of the enumerated family of '
                                     'adjacent style states (per group: none/x/y/clear/x+clear/clear+x/x+y on 2-3 characters; '
                                     'pairs of groups; on/off/on-again triples over ordered pairs of groups with and without a third setting kept on; a clearing setting over an active one while 1-3 other settings stay on; 3-6 settings ending at one index while another continues) rendered under all 8 flag combinations; TLC tokenises each output and '
                                     'runs the terminal model over it',
                             'family_cases': len(cases), 'family_exhaustive_over_15_groups': thorough})


def merge(*camps):
    out = {'rows': [], 'states': 0, 'transitions': 0, 'events': 0, 'gen_s': 0.0, 'tlc_s': 0.0, 'samples': [], 'errors': []}
    off = 0
    for c in camps:
        for r in c['rows']:
            r = dict(r)
            r['tid'] = r['tid'] + off
            out['rows'].append(r)
        off += 1000000
        for k in ('states', 'transitions', 'events'):
            out[k] += c[k]
        out['samples'] += c['samples'][:2]
        out['errors'] += c['errors']
    return out


def check_c02(prop, tier, seed):
    t0 = time.time()
    design = design_runs(prop, tier)
    camp = campaign.run_campaign('parse_input', 60000 if tier == 'thorough' else 8000, seed, per_shard_max=4000)
    return report(prop, tier, seed, t0, camp, design,
                  extra_cov={'rule': 'random interleavings of text with SGR sequences (multi-parameter colours at any '
                                     'position, several sequences at one position, at start/end), non-SGR and unterminated '
                                     'sequences; non-trivial = input in the claim and containing at least one SGR sequence'})


def check_c03(prop, tier, seed):
    t0 = time.time()
    design = design_runs(prop, tier)
    thorough = tier == 'thorough'
    camp = campaign.run_campaign('history', 12000 if thorough else 1500, seed, profile='C03',
                                 nops=12 if thorough else 8, maxlen=10 if thorough else 6, more=0.6, odd=0.12,
                                 epilogue=('reparse', 'simplify'))
    from .drivers import history
    cases = history.pair_end_cases(all_second=thorough) + history.many_end_cases() + history.keep_clear_cases()
    if thorough:
        cases += history.stack_cases() + history.triple_cases()
    fam = campaign.run_campaign('roundtrip_family', len(cases), seed + 1, cases=cases, per_shard_max=4000)
    return report(prop, tier, seed, t0, merge(camp, fam), design,
                  extra_cov={'rule': 'random histories (overlapping, conflicting, shadowing, multi-parameter, verbatim and '
                                     'invalid settings) each followed by render->parse and simplify()/simplify() on every value; '
                                     'enumerated family: settings of every ordered pair of the 14 effect groups ending together '
                                     '(alone / with a third kept on / one after the other), 3-6 settings ending at one index, clearing '
                                     'settings over active ones - each rendered, re-parsed and simplified twice',
                             'family_cases': len(cases)})


def enum_campaign(gen, alpha, maxlen, block, seed, **kw):
    from .drivers import funcs
    total = funcs.count_words(alpha, maxlen)
    ntraces = (total + block - 1) // block
    camp = campaign.run_campaign(gen, ntraces, seed, block=block, total_inputs=total, per_shard_max=100000, **kw)
    return camp, total


def check_c18(prop, tier, seed):
    from .drivers import funcs
    t0 = time.time()
    design = design_runs(prop, tier)
    maxlen = 5 if tier == 'thorough' else 4
    camp, total = enum_campaign('pgs', funcs.CODE_ALPHA, maxlen, 40, seed)
    s2d = campaign.run_campaign('s2d', 1200 if tier == 'thorough' else 150, seed, block=50)
    allc = campaign.run_campaign('pgs_codes', 1, seed)
    return report(prop, tier, seed, t0, merge(camp, s2d, allc), design,
                  extra_cov={'rule': 'all code lists over %s up to length %d, each as ;-string, list of int and list of str, '
                                     'with add_erroneous False/True/False again; every code 0..120 alone, next to another code and on a prior state; random settings_to_dict(settings, old) calls' % (funcs.CODE_ALPHA, maxlen),
                             'inputs_enumerated': total, 'exhaustive': True})


def check_c19(prop, tier, seed):
    from .drivers import funcs
    t0 = time.time()
    design = design_runs(prop, tier)
    maxlen = 6 if tier == 'thorough' else 5
    camp, total = enum_campaign('pcs', funcs.CS_ALPHA, maxlen, 100, seed)
    hl = campaign.run_campaign('helper', 1, seed)
    bd = campaign.run_campaign('pcs_boundary', 1, seed)
    return report(prop, tier, seed, t0, merge(camp, hl, bd), design,
                  extra_cov={'rule': 'all strings over {ESC [ 1 ; ? space m H a} up to length %d under 4 flag combinations; '
                                     'every cursor/erase/scroll helper with boundary arguments; every code point 0x1a-0x81 (and a few beyond) as body byte, final byte and after ESC' % maxlen,
                             'inputs_enumerated': total, 'exhaustive': True})


def check_c15(prop, tier, seed):
    from .drivers import funcs
    t0 = time.time()
    design = design_runs(prop, tier)
    thorough = tier == 'thorough'
    maxlen = 6 if thorough else 4
    camp, total = enum_campaign('aset', funcs.SET_ALPHA, maxlen, 2000 if thorough else 200, seed)
    extra = campaign.run_campaign('aset_extra', 1, seed)
    hist = campaign.run_campaign('history', 8000 if thorough else 1200, seed, profile='C15', nops=10, maxlen=6, more=0.4,
                                 odd=0.35, epilogue=('render8',))
    # "settings given as AnsiFormat members, their names, known codes or in-range helper results are always valid and
    # parsable": the documented spellings themselves (names, codes, colour helpers and strings)
    from .drivers import spellings   # noqa: F401  (registers nothing; the generators are in the registry)
    names = member_names()
    sel = names if thorough else names[:24] + __import__('random').Random(seed).sample(names[24:], 40)
    docs = merge(campaign.run_campaign('sp_codes', 1, seed), campaign.run_campaign('sp_colours', 1, seed),
                 campaign.run_campaign('sp_names', (len(sel) + 7) // 8, seed, names=sel, block=8, per_shard_max=100000))
    return report(prop, tier, seed, t0, merge(camp, extra, hist, docs), design,
                  extra_cov={'rule': 'all setting texts over {0 1 2 3 5 8 ; space ? : m} up to length %d plus boundary texts and all '
                                     'codes 0..255, each flag read twice and in both orders; renderings (8 flag sets) of values '
                                     'with verbatim and invalid settings for the strip/verbatim/conjunction clauses' % maxlen,
                             'inputs_enumerated': total, 'exhaustive': True})


def check_c11(prop, tier, seed):
    from .drivers import funcs, textfam
    t0 = time.time()
    design = design_runs(prop, tier)
    thorough = tier == 'thorough'
    cfg = HIST[prop]
    camp = campaign.run_campaign('history', cfg[tier], seed, profile=prop, nops=cfg['nops_thorough'] if thorough else cfg['nops'],
                                 alpha=cfg['alpha'], maxlen=12 if thorough else 8, ctrl=0.12)
    maxlen = 7 if thorough else 5
    ntexts = funcs.count_words(['a', 'b'], maxlen)
    fam = campaign.run_campaign('text_family', ntexts * len(textfam.SEPS), seed, per_shard_max=100000)
    return report(prop, tier, seed, t0, merge(camp, fam), design,
                  extra_cov={'rule': 'random histories over non-uniformly formatted values (a distinct setting per character) with '
                                     'split/rsplit/splitlines/partition/strip/removeprefix/replace/expandtabs/case/assign_str; plus '
                                     'the exhaustive family: every text over {a,b} up to length %d x every separator up to length 2 '
                                     'x maxsplit/count -1..2 (piece offsets computed by spec/Text.tla and audited against CPython)' % maxlen,
                             'family_texts': ntexts, 'family_exhaustive': True})


def member_names():
    from . import core
    lib = core.load_lib()
    return list(lib.AnsiFormat.__members__)


def check_c14(prop, tier, seed):
    t0 = time.time()
    design = design_runs(prop, tier)
    thorough = tier == 'thorough'
    names = member_names()
    if thorough:
        sel = names
    else:
        rnd = __import__('random').Random(seed)
        sel = names[:60] + rnd.sample(names[60:], 100)
    block = 8
    c1 = campaign.run_campaign('sp_names', (len(sel) + block - 1) // block, seed, names=sel, block=block, per_shard_max=100000)
    c2 = campaign.run_campaign('sp_codes', 1, seed)
    c3 = campaign.run_campaign('sp_colours', 1, seed)
    c4 = campaign.run_campaign('sp_mix', 120 if thorough else 14, seed, names=names, block=100)
    c5 = campaign.run_campaign('sp_hist', 12000 if thorough else 1500, seed, nops=8 if thorough else 6)
    return report(prop, tier, seed, t0, merge(c1, c2, c3, c4, c5), design,
                  extra_cov={'rule': '%d AnsiFormat names x 10 spellings (member, 3 letter cases x 3 separators); every code 0..255 as '
                                     'int/str/verbatim; integer runs with the colour group at any position in 4 encodings; rgb()/color256() '
                                     'helper calls and string spellings over boundary values, hex/decimal, brackets, spaces; malformed '
                                     'strings; random mixtures nested to depth 3, ;-joined strings, bad names/types, self-containing list; random apply/remove '
                                     'histories executed twice with every settings argument spelled two different ways, results compared'
                                     % len(sel),
                             'names_total': len(names), 'names_covered': len(sel), 'exhaustive': thorough})


def check_c13(prop, tier, seed):
    t0 = time.time()
    design = design_runs(prop, tier)
    thorough = tier == 'thorough'
    camp = campaign.run_campaign('twins', 16000 if thorough else 2000, seed, nops=10 if thorough else 6, maxlen=8 if thorough else 6)
    return report(prop, tier, seed, t0, camp, design,
                  extra_cov={'rule': 'constructor forms (str with/without escape sequences, AnsiString, AnsiStr source; with/without '
                                     'settings) and shared methods executed in lockstep on an AnsiString and its AnsiStr twin; TLC '
                                     'compares every pair of results (settings, rendering, kind, payload)'})


CHECKS = {p: check_history for p in HIST}
CHECKS.update({'C11': check_c11, 'C13': check_c13, 'C14': check_c14, 'C18': check_c18, 'C19': check_c19, 'C15': check_c15})
CHECKS.update({'C01': check_c01, 'C02': check_c02, 'C03': check_c03})


def main(argv):
    import argparse
    ap = argparse.ArgumentParser()
    ap.add_argument('prop')
    ap.add_argument('--tier', default=os.environ.get('VERIF_TIER', 'quick'))
    ap.add_argument('--seed', type=int, default=int(os.environ.get('VERIF_SEED', '1')))
    ap.add_argument('--replay')
    a = ap.parse_args(argv)
    os.environ.setdefault('VERIF_DRIFT_RENDER_EVERY', '1' if a.tier == 'thorough' else '6')
    if a.prop == 'selftest':
        from . import selftest
        return selftest.main()
    if a.replay:
        return replay(a.prop, a.replay)
    try:
        return CHECKS[a.prop](a.prop, a.tier, a.seed)
    except tlcrun.Machinery as e:
        print('MACHINERY: %s' % e)
        return 2
