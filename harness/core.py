"""Register machine that drives the real ansi_string objects and records one event per outermost
public call, with the abstract state (text + per-character ordered list of reported settings) of every
register that changed.  Nothing here judges anything: verdicts come from TLC evaluating the TLA+ contracts
on the recorded events (spec/TraceHistory.tla).

The library is imported from $VERIF_REPO/src (default /repo/src) so that scratch copies can be checked.
"""
import importlib
import os
import signal
import sys

REPO = os.environ.get('VERIF_REPO', '/repo')
CALL_TIMEOUT = float(os.environ.get('VERIF_CALL_TIMEOUT', '5'))
CLAMP = 1 << 30


def load_lib():
    src = os.path.join(REPO, 'src')
    if sys.path[0] != src:
        sys.path.insert(0, src)
    sys.dont_write_bytecode = True
    for m in [m for m in sys.modules if m == 'ansi_string' or m.startswith('ansi_string.')]:
        del sys.modules[m]
    lib = importlib.import_module('ansi_string')
    assert os.path.realpath(lib.__file__).startswith(os.path.realpath(src)), lib.__file__
    return lib


def cps(s):
    if type(s) is not str and isinstance(s, str):
        s = str.__str__(s)          # a str subclass (AnsiStr) may iterate over formatted pieces: take its plain payload
    return [ord(c) for c in s]


def uncps(a):
    return ''.join(chr(c) for c in a)


def clamp(x):
    return max(-CLAMP, min(CLAMP, x))


def opt(x):
    """Optional int -> [] / [n] (TLC has no None)."""
    return [] if x is None else [clamp(int(x))]


def unopt(a):
    return None if not a else a[0]


class TextTable:
    """Distinct setting texts of a batch; ids are 1-based (TLA+ sequence index)."""

    def __init__(self):
        self.ids = {}
        self.rows = []

    def tid(self, text):
        if type(text) is not str:
            # a str subclass (a setting whose text is an AnsiStr): its plain payload is what is logged
            text = str.__str__(text) if isinstance(text, str) else str(text)
        t = self.ids.get(text)
        if t is None:
            self.rows.append(cps(text))
            t = len(self.rows)
            self.ids[text] = t
        return t

    def tids(self, texts):
        return [self.tid(t) for t in texts]


class CallTimeout(BaseException):
    pass


def _alarm(signum, frame):
    raise CallTimeout()


def guarded(fn):
    """Run fn() under a watchdog; returns (outcome, value)."""
    signal.signal(signal.SIGALRM, _alarm)
    signal.setitimer(signal.ITIMER_REAL, CALL_TIMEOUT)
    try:
        v = fn()
        signal.setitimer(signal.ITIMER_REAL, 0)
        return 'ok', v
    except CallTimeout:
        return 'timeout', None
    except RecursionError as e:
        signal.setitimer(signal.ITIMER_REAL, 0)
        return 'raise:RecursionError', e
    except MemoryError as e:
        signal.setitimer(signal.ITIMER_REAL, 0)
        return 'raise:MemoryError', e
    except Exception as e:  # noqa
        signal.setitimer(signal.ITIMER_REAL, 0)
        if isinstance(e, ValueError) and 'could not remove setting' in str(e):
            return 'selfcheck', e
        return 'raise:' + type(e).__name__, e
    finally:
        signal.setitimer(signal.ITIMER_REAL, 0)


class Machine:
    """One history: registers 1..n holding AnsiString ('S'), AnsiStr ('A') or plain str ('P')."""

    def __init__(self, lib, texts, max_regs=64):
        self.lib = lib
        self.texts = texts
        self.regs = [None]          # 1-based
        self.kinds = [None]
        self.snaps = [None]
        self.inst = {}              # id(AnsiSetting) -> n
        self.keep = []              # keep every seen AnsiSetting alive (ids never reused)
        self.events = []
        self.max_regs = max_regs

    # ---- projection ----------------------------------------------------------------------------
    def inst_id(self, x):
        n = self.inst.get(id(x))
        if n is None:
            n = len(self.keep) + 1
            self.inst[id(x)] = n
            self.keep.append(x)
        return n

    def kind_of(self, obj):
        if isinstance(obj, self.lib.AnsiString):
            return 'S'
        if isinstance(obj, self.lib.AnsiStr):
            return 'A'
        if isinstance(obj, str):
            return 'P'
        return '?'

    def _sty(self, obj, n):
        return [[[self.inst_id(x), self.texts.tid(str(x))] for x in obj.ansi_settings_at(i)] for i in range(n)]

    def raw_table(self, obj, k):
        """The private change-point table, read only (for DRIFT detection against spec/ChangePoints.tla)."""
        try:
            fm = obj._fmts if k == 'S' else obj._s._fmts
            return [[clamp(int(key)), [[self.inst_id(x), self.texts.tid(str(x))] for x in pt.add],
                     [[self.inst_id(x), self.texts.tid(str(x))] for x in pt.rem]] for key, pt in sorted(fm.items())]
        except Exception:
            return [[-1, [], []]]

    def snapshot(self, obj):
        k = self.kind_of(obj)
        if k == 'P':
            return {'k': 'P', 't': cps(obj), 's': [[] for _ in obj], 'p': cps(obj), 'q': cps(obj), 'b': 0, 'f': []}
        A = self.lib.AnsiString
        broken = 0
        text = obj.base_str
        if type(text) is not str:
            # the base text must be a plain str (a str subclass stored there re-formats itself when it is sliced): the value
            # is inconsistent; project the plain characters so that the rest of the trace can still be judged
            broken = 1
            text = str.__str__(text) if isinstance(text, str) else str(text)
        n = len(text)
        saved = A.WITH_ASSERTIONS
        try:
            A.WITH_ASSERTIONS = True
            out, sty = guarded(lambda: self._sty(obj, n))
            if out != 'ok':
                broken = 1
                A.WITH_ASSERTIONS = False
                out, sty = guarded(lambda: self._sty(obj, n))
                if out != 'ok':
                    sty = [[] for _ in range(n)]
            # a stop marker that matches nothing anywhere in the table is also caught by a rendering
            out, q = guarded(lambda: obj.to_str())
            if out != 'ok':
                broken = 1
                A.WITH_ASSERTIONS = False
                out, q = guarded(lambda: obj.to_str())
                if out != 'ok':
                    q = ''
            if n != len(obj):
                broken = 1
        finally:
            A.WITH_ASSERTIONS = saved
        p = str.__str__(obj) if k == 'A' else q
        return {'k': k, 't': cps(text), 's': sty, 'p': cps(p), 'q': cps(q), 'b': broken, 'f': self.raw_table(obj, k)}

    # ---- registers -----------------------------------------------------------------------------
    def reg_of(self, obj):
        """Existing register holding this very object (identity), else 0."""
        for i in range(1, len(self.regs)):
            if self.regs[i] is obj and self.kinds[i] != 'P':
                return i
        return 0

    def alloc(self, obj):
        r = self.reg_of(obj)
        if r:
            return r
        if len(self.regs) > 5000:        # max_regs is the generators' soft limit (room()); results are always stored
            raise RuntimeError('register file full')
        self.regs.append(obj)
        self.kinds.append(self.kind_of(obj))
        self.snaps.append(None)
        return len(self.regs) - 1

    def changed(self):
        """Re-project every live register; return [[reg, snapshot]] for those whose projection differs."""
        upd = []
        for i in range(1, len(self.regs)):
            s = self.snapshot(self.regs[i])
            if s != self.snaps[i]:
                self.snaps[i] = s
                upd.append([i, s])
        return upd

    # ---- events --------------------------------------------------------------------------------
    def emit(self, op, r, a, out, res=(), same=0, obs=None, tag=''):
        a = dict(a)
        a.setdefault('_', 0)
        o = dict(obs or {})
        o.setdefault('_', 0)
        ev = {'op': op, 'r': r, 'a': a, 'out': out, 'res': list(res), 'same': same, 'o': o, 'tag': tag,
              'upd': self.changed()}
        self.events.append(ev)
        return ev
