#!/usr/bin/env python3
"""Regenerates /verif/MANIFEST.json from the table below (keeps it valid and current)."""
import json
import os

ROOT = os.path.dirname(os.path.dirname(os.path.abspath(__file__)))
ALL = ['C%02d' % i for i in range(1, 20)]

TECH = 'TLA+ contracts + TLC trace validation of recorded implementation histories'
CLAIMED = {
    'C01': ('TLC tokenises every rendering and runs the SGR terminal model of spec/SGR.tla over it; renderings come from '
            'random histories and an enumerated family of adjacent style states, under all 8 flag combinations', '5 C01'),
    'C02': ('TLC computes text and per-character terminal state of each input from spec/CtrlSeq.tla+SGR.tla and compares with '
            'the projection of the constructed object', '5 C02'),
    'C03': ('round trip and simplify() events of random histories judged by the C03 clauses of spec/AnsiOps.tla', '5 C03'),
    'C04': ('slice/index/clip/iteration events and the "+ x" closure probe judged by the C04 clauses', '5 C04'),
    'C05': ('concatenation events (+, +=, join, s[:k]+s[k:]) judged by the C05 clauses', '5 C05'),
    'C06': ('apply_formatting events judged by the C06 clauses (frame, gain, bottom/top display, no-op)', '5 C06'),
    'C07': ('remove_formatting/clear_formatting events judged by the C07 clauses', '5 C07'),
    'C08': ('frame, identity and aliasing clauses evaluated on every event with all live objects re-projected', '5 C08'),
    'C10': ('every str-like method call of random histories compared by TLC with the logged CPython str result on the same base '
            'text (documented deviations computed in spec/AnsiText.tla); Text.tla re-derives the ASCII fragment and is audited '
            'against CPython on every call', '5 C10'),
    'C11': ('piece offsets / match positions computed by spec/Text.tla (true offsets), per-character settings compared at those '
            'offsets on non-uniformly formatted values; exhaustive family over {a,b} texts x separators', '5 C11'),
    'C12': ('padding contracts (text, original keeps settings, fill settings by extend flag) and the format-spec grammar of '
            'spec/FormatSpec.tla; format() output equals and displays like pad+apply on a copy', '5 C12'),
    'C13': ('constructor forms and shared methods run in lockstep on an AnsiString and its AnsiStr twin; TLC compares every pair; '
            'payload = rendering on every AnsiStr snapshot', '5 C13'),
    'C16': ('format_matching/unformat_matching against the explicit loop of apply/remove over logged re.finditer spans', '5 C16'),
    'C17': ('ansi_settings_at/settings_at/find_settings results judged by TLC against the per-character table of the pre-state', '5 C17'),
    'C14': ('leaves of a settings argument (names x spellings, codes, runs, rgb/color256 calls and strings, nestings) judged by TLC '
            'against the denotation in spec/Settings.tla; the colour table itself is taken from the trace', '5 C14'),
    'C15': ('valid/parsable of every setting text over an 11-symbol alphabet (exhaustive to a stated length) compared by TLC with '
            'the grammar in spec/SGR.tla (SemOf) / AnsiFuncs.tla; strip/verbatim/conjunction clauses on renderings', '5 C15'),
    'C18': ('every code list over a 12-code alphabet (exhaustive to a stated length, 3 encodings x add_erroneous) judged by TLC '
            'against the terminal reading TermEffs/TermRun of spec/SGR.tla; settings_to_dict against TermRun on a prior state', '5 C18'),
    'C19': ('every string over a 9-symbol alphabet (exhaustive to a stated length, 4 flag combinations) judged by TLC against '
            'ParseCS/Reinsert of spec/CtrlSeq.tla; every helper against the expected sequence', '5 C19'),
    'C09': ('outcome, clean-failure and consistency clauses on every event; watchdog for termination', '5 C09'),
}
REASON_PENDING = 'check not built yet (build in progress)'


def main():
    checks = []
    for p, (text, ref) in sorted(CLAIMED.items()):
        checks.append({
            'property_id': p,
            'quick_cmd': './check %s --tier quick' % p,
            'thorough_cmd': './check %s --tier thorough' % p,
            'evidence_file': 'evidence/%s.json' % p,
            'replay_cmd_template': './check %s --replay {path}' % p,
            'engine': 'tlc-trace-validation',
            'level_claimed': {
                'category': 'model_checking',
                'text': 'Explicit TLA+ specification checked with TLC; bound to the implementation by trace validation: ' + text
                        + '. Decides the property on every explored history/input within the stated bounds; it is not a proof about '
                          'the Python source.',
                'design_ref': 'DESIGN.md section ' + ref,
            },
            'level_note': 'Trusted: TLC, the projection through the public API, the independent SGR table of spec/SGR.tla; '
                          'violations outside the explored histories and bounds are not seen.',
            'technique': TECH,
        })
    doc = {
        'version': 1,
        'setup_cmd': 'cd /verif && ./tools/setup.sh',
        'hooks': {
            'guard': 'ANSI_STRING_VERIF',
            'enable': 'no hooks in the repository: the public API (base_str, ansi_settings_at, to_str) exposes the abstract '
                      'state; the harness drives and observes it from outside, importing $VERIF_REPO/src (default /repo/src)',
            'baseline_off_cmd': 'cd /repo && /venv/bin/python -m pytest -ra -q -p no:cacheprovider --timeout=900 '
                                '--continue-on-collection-errors',
            'source_commits': [],
            'add_only': True,
        },
        'engines': [
            {'name': 'tlc-trace-validation', 'path': 'spec/TraceHistory.tla',
             'serves_properties': sorted(CLAIMED),
             'kind_free_text': 'TLC 1.8.0 evaluating the TLA+ operation contracts (spec/AnsiOps.tla) on batches of histories '
                               'recorded from the real objects by harness/'},
        ],
        'checks': checks,
        'not_applicable': [{'property_id': p, 'reason': REASON_PENDING} for p in ALL if p not in CLAIMED],
        'notes': 'See DESIGN.md. known_findings.json lists repaired defects (fix: commits in /repo).',
    }
    with open(os.path.join(ROOT, 'MANIFEST.json'), 'w') as f:
        json.dump(doc, f, indent=1)
    print('MANIFEST.json: %d checks, %d not applicable' % (len(checks), len(doc['not_applicable'])))


if __name__ == '__main__':
    main()
