#!/usr/bin/env python3
"""Confirm a seeded breaking change and run the checks against it.

usage: seedcheck.py <prop> <k> <dir with mut<k>.diff demo<k>.py meta<k>.json> [--props C04,C05] [--tier quick]
Creates a scratch worktree of /repo under /tmp/mw, confirms (tests pass with the change, demo fails with it and passes
without), runs ./check for the property (and any extra ones) with VERIF_REPO pointing at the scratch tree, stores the
artefacts and the outcome under /verif/seeded/<prop>-<k>/ and removes the worktree.
"""
import json
import os
import shutil
import subprocess
import sys
import time

ROOT = os.path.dirname(os.path.dirname(os.path.abspath(__file__)))


def sh(cmd, **kw):
    return subprocess.run(cmd, shell=True, stdout=subprocess.PIPE, stderr=subprocess.STDOUT, text=True, **kw)


def main():
    prop, k, src = sys.argv[1], sys.argv[2], os.path.abspath(sys.argv[3])
    props = [prop]
    tier = 'quick'
    for i, a in enumerate(sys.argv):
        if a == '--props':
            props = sys.argv[i + 1].split(',')
        if a == '--tier':
            tier = sys.argv[i + 1]
    name = '%s-%s' % (prop, k)
    for i, a in enumerate(sys.argv):
        if a == '--name':
            name = sys.argv[i + 1]
    wt = '/tmp/mw/' + name
    os.makedirs('/tmp/mw', exist_ok=True)
    sh('git -C /repo worktree remove --force %s' % wt)
    r = sh('git -C /repo worktree add -q --detach %s HEAD' % wt)
    assert r.returncode == 0, r.stdout
    out = {'property': prop, 'ran': []}
    try:
        if os.path.exists(os.path.join(src, 'patch.diff')):       # re-check of an already stored change (seeded/<id>/)
            diff, demo = os.path.join(src, 'patch.diff'), os.path.join(src, 'demo.py')
            meta = json.load(open(os.path.join(src, 'meta.json')))
            for kk in ('confirmation', 'checks_run', 'detected_by'):
                meta.pop(kk, None)
        else:
            diff = os.path.join(src, 'mut%s.diff' % k)
            demo = os.path.join(src, 'demo%s.py' % k)
            meta = json.load(open(os.path.join(src, 'meta%s.json' % k)))
        r = sh('/venv/bin/python %s %s/src' % (demo, wt))
        out['demo_clean_exit'] = r.returncode
        r = sh('git -C %s apply --3way %s' % (wt, diff))
        if r.returncode != 0 or sh('git -C %s diff --name-only --diff-filter=U' % wt).stdout.strip():
            # the code the change touches was itself changed by a later fix: in /repo: keep the record of the last run
            dst = os.path.join(ROOT, 'seeded', name)
            if os.path.exists(os.path.join(dst, 'meta.json')):
                old = json.load(open(os.path.join(dst, 'meta.json')))
                old['no_longer_applies_to'] = sh('git -C /repo rev-parse --short HEAD').stdout.strip()
                json.dump(old, open(os.path.join(dst, 'meta.json'), 'w'), indent=1)
            print(json.dumps({'property': prop, 'applies': False, 'detail': r.stdout[-300:]}))
            return
        r = sh('cd %s && /venv/bin/python -m pytest -q -p no:cacheprovider tests 2>&1 | tail -1' % wt)
        out['tests_with_change'] = r.stdout.strip()
        r = sh('/venv/bin/python %s %s/src' % (demo, wt))
        out['demo_mutated_exit'] = r.returncode
        out['demo_mutated_output'] = r.stdout[-400:]
        confirmed = out['demo_clean_exit'] == 0 and out['demo_mutated_exit'] == 1 and '306 passed' in out['tests_with_change']
        out['confirmed'] = confirmed
        detected = {}
        # the checks run in a private copy of /verif, so that evidence written for the changed tree never lands in /verif
        vcopy = wt + '-verif'
        shutil.rmtree(vcopy, ignore_errors=True)
        os.makedirs(vcopy)
        for item in ('spec', 'harness', 'check', 'known_findings.json', 'properties.jsonl'):
            src_ = os.path.join(ROOT, item)
            if os.path.isdir(src_):
                shutil.copytree(src_, os.path.join(vcopy, item), ignore=shutil.ignore_patterns('__pycache__'))
            else:
                shutil.copy2(src_, os.path.join(vcopy, item))
        for p in props:
            t0 = time.time()
            env = dict(os.environ, VERIF_REPO=wt)
            r = subprocess.run(['./check', p, '--tier', tier], cwd=vcopy, env=env, stdout=subprocess.PIPE, stderr=subprocess.STDOUT, text=True)
            lines = [l for l in r.stdout.splitlines() if l.startswith('VIOLATION') or l.startswith('MACHINERY')]
            detected[p] = {'exit': r.returncode, 'lines': [l.replace(vcopy, '.') for l in lines][:6], 'wall_s': round(time.time() - t0, 1)}
            out['ran'].append('VERIF_REPO=%s ./check %s --tier %s -> exit %d' % (wt, p, tier, r.returncode))
        out['detected_by'] = detected
        dst = os.path.join(ROOT, 'seeded', name)
        if confirmed:
            os.makedirs(dst, exist_ok=True)
            if os.path.abspath(diff) != os.path.abspath(os.path.join(dst, 'patch.diff')):
                shutil.copy(diff, os.path.join(dst, 'patch.diff'))
                shutil.copy(demo, os.path.join(dst, 'demo.py'))
            meta['base_commit'] = sh('git -C /repo rev-parse --short HEAD').stdout.strip()
            meta.update({'breaks': prop, 'needs_to_manifest': meta.get('needs'), 'confirmation': {
                'tests_with_change': out['tests_with_change'], 'demo_exit_with_change': out['demo_mutated_exit'],
                'demo_exit_without_change': out['demo_clean_exit']}, 'checks_run': out['ran'], 'detected_by': detected})
            json.dump(meta, open(os.path.join(dst, 'meta.json'), 'w'), indent=1)
        print(json.dumps(out, indent=1))
    finally:
        sh('git -C /repo worktree remove --force %s' % wt)
        shutil.rmtree(wt + '-verif', ignore_errors=True)


if __name__ == '__main__':
    main()
