#!/bin/sh
# Offline setup: parse every TLA+ module, byte-compile nothing (PYTHONDONTWRITEBYTECODE), check tools exist.
set -e
cd "$(dirname "$0")/.."
command -v java >/dev/null
[ -f /opt/veriftools/tla/tla2tools.jar ]
mkdir -p evidence/replay
echo '[[49]]' > /tmp/verif-setup-texts.$$.json
for m in spec/TraceHistory.tla spec/AnsiSystem.tla spec/CPSystem.tla; do
  ( cd spec && VERIF_TEXTS=/tmp/verif-setup-texts.$$.json java -cp /opt/veriftools/tla/tla2tools.jar:/opt/veriftools/tla/CommunityModules-deps.jar tla2sany.SANY "$(basename $m)" >/tmp/verif-setup.$$.log 2>&1 ) || { cat /tmp/verif-setup.$$.log; rm -f /tmp/verif-setup*.$$.*; exit 1; }
done
rm -f /tmp/verif-setup-texts.$$.json /tmp/verif-setup.$$.log
PY=/venv/bin/python; [ -x "$PY" ] || PY=python3
PYTHONDONTWRITEBYTECODE=1 "$PY" -c "import sys; sys.path.insert(0,'.'); from harness import checks, campaign, ops, core, tlcrun; print('harness ok')"
