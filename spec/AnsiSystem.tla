----------------------------- MODULE AnsiSystem -----------------------------
(***************************************************************************)
(* The design model: a heap of abstract values (text + per-character       *)
(* ordered list of settings) and the library's operations as a state       *)
(* machine with a deterministic REFERENCE semantics (the intended          *)
(* behaviour).  TLC explores every history up to MaxDepth over a small     *)
(* alphabet/palette and checks, on every transition, every contract clause *)
(* of AnsiOps (the listed properties) - so the contracts are consistent,   *)
(* not vacuous, and admit at least this implementation - plus the heap     *)
(* invariants.  The same state machine generates histories that the        *)
(* harness replays on the real objects (spec -> code).                     *)
(*                                                                         *)
(* An action produces the same EVENT record a recorded implementation      *)
(* event has, so that the contracts are literally the same operators.      *)
(***************************************************************************)
EXTENDS AnsiOps

CONSTANTS MaxLen,        \* longest text a constructor makes
          MaxRegs,       \* heap size
          MaxDepth,      \* operations per history
          Alphabet,      \* set of code points
          Palette,       \* set of text ids (into the VERIF_TEXTS table)
          MaxTotalLen,   \* longest text any operation may produce
          WithParse      \* include the parse / re-parse / simplify actions (C02, C03)

VARIABLES heap, ninst, depth, ev, hist
vars == <<heap, ninst, depth, ev, hist>>

Regs == 1..MaxRegs
Live == {r \in Regs : heap[r].k # "N"}
Free == {r \in Regs : heap[r].k = "N"}
NextFree == CHOOSE r \in Free : \A q \in Free : r <= q

MkVal(k, t, s) == [k |-> k, t |-> t, s |-> s, p |-> << >>, q |-> << >>, b |-> 0]
TextsUpTo(n) == UNION {[1..k -> Alphabet] : k \in 0..n}
SettingLists == {<< >>} \cup {<<a>> : a \in Palette} \cup {<<a, b>> : a \in Palette, b \in Palette}
Fresh(S, base) == [i \in DOMAIN S |-> <<base + i, S[i]>>]
OptBounds(n) == {<< >>} \cup {<<x>> : x \in (-(n + 1))..(n + 1)}

RECURSIVE SetToSeq(_)
SetToSeq(S) == IF S = {} THEN << >> ELSE LET m == CHOOSE x \in S : TRUE IN <<m>> \o SetToSeq(S \ {m})

NoEvent == [op |-> "init", r |-> 0, a |-> [inplace |-> 0], out |-> "ok", res |-> << >>, same |-> 0,
            upd |-> << >>, o |-> [pyout |-> "ok"], tag |-> ""]

Init ==
  /\ heap = [r \in Regs |-> Absent]
  /\ ninst = 0
  /\ depth = 0
  /\ ev = NoEvent
  /\ hist = << >>

---------------------------------------------------------------------------
\* reference semantics of the operations with relational slack
RefApply(v, S, lo, hi, top, base) ==
  LET new == Fresh(S, base)
      atStart == IF lo + 1 \in DOMAIN v.s THEN Range(Insts(v.s[lo + 1])) ELSE {}
  IN [v EXCEPT !.s = [i \in DOMAIN v.s |->
        IF S # << >> /\ lo < i /\ i <= hi
        THEN IF top THEN SelectSeq(v.s[i], LAMBDA x : x[1] \in atStart) \o new
                         \o SelectSeq(v.s[i], LAMBDA x : x[1] \notin atStart)
             ELSE new \o v.s[i]
        ELSE v.s[i]]]

RefRemove(v, Sel, all, lo, hi) ==
  [v EXCEPT !.s = [i \in DOMAIN v.s |->
     IF lo < i /\ i <= hi /\ (all \/ Sel # {})
     THEN (IF all THEN << >> ELSE SelectSeq(v.s[i], LAMBDA x : x[2] \notin Sel))
     ELSE v.s[i]]]

ValOfSegs(kind, segs) == MkVal(kind, ExpT(segs, heap, 1), ExpS(segs, heap, 1))

\* reference renderer: reset + every setting before each character (always correct, never optimal)
RECURSIVE RefRender(_, _, _)
RefRender(v, i, fl) ==
  IF i > Len(v.t) THEN (IF fl[3] = 1 /\ Len(v.t) > 0 THEN <<ESC, LBRK, 48, LOWM>> ELSE << >>)
  ELSE <<ESC, LBRK, 48>> \o (IF v.s[i] = << >> THEN << >> ELSE <<SEMI>> \o JoinTexts(Tids(v.s[i]), 1))
       \o <<LOWM, v.t[i]>> \o RefRender(v, i + 1, fl)
RefRenderAll(v, fl) ==
  IF Len(v.t) = 0 THEN (IF fl[2] = 1 THEN <<ESC, LBRK, 48, LOWM>> ELSE << >>) ELSE RefRender(v, 1, fl)

\* reference parser: the per-character terminal state of the input, one setting per non-default group in a fixed order
GroupOrder == <<"bold", "ital", "ul", "blink", "swap", "hide", "cross", "font", "space", "box", "over", "fg", "bg", "ulc">>
TidOf(text) == CHOOSE i \in TextIds : TextTable[i] = text
StateSettings(sig, base) ==
  LET on == SelectSeq(GroupOrder, LAMBDA g : sig[g] # << >>) IN
  [k \in DOMAIN on |-> <<base + k, TidOf(JoinDec(sig[on[k]], 1))>>]
RefParse(input, base) ==
  LET run == RunToks(FlatToks(Tokens(input), 1), 1, DefaultState) IN
  MkVal("S", [i \in DOMAIN run.chars |-> run.chars[i][1]], [i \in DOMAIN run.chars |-> StateSettings(run.chars[i][2], base)])

\* inputs with escape sequences for the constructor: up to three items, each a character or an SGR sequence
SgrBodies == {<< >>, <<48>>} \cup {TextTable[t] : t \in Palette} \cup {TextTable[a] \o <<SEMI>> \o TextTable[b] : a \in Palette, b \in Palette}
ParseItems == {<<c>> : c \in Alphabet} \cup {<<ESC, LBRK>> \o body \o <<LOWM>> : body \in SgrBodies}
ParseInputs == {a \o b \o c : a \in ParseItems, b \in ParseItems \cup {<< >>}, c \in ParseItems \cup {<< >>}}

---------------------------------------------------------------------------
\* one step: the new heap, the event describing it, and the operation description for export
Do(newheapX, e, desc, usedInsts) ==
  \E newheap \in {newheapX} :      \* bound once: TLC re-evaluates action-level parameters on every reference
  /\ heap' = newheap
  /\ ev' = [e EXCEPT !.upd = LET ch == {r \in Regs : newheap[r] # heap[r]}
                              IN SetToSeq({<<r, newheap[r]>> : r \in ch})]
  /\ hist' = Append(hist, desc)
  /\ ninst' = ninst + usedInsts
  /\ depth' = depth + 1

Ev(op, r, a, res, same) ==
  [op |-> op, r |-> r, a |-> a, out |-> "ok", res |-> res, same |-> same, upd |-> << >>,
   o |-> [pyout |-> "ok"], tag |-> ""]

New ==
  \E t \in TextsUpTo(MaxLen), S \in SettingLists :
    LET r == NextFree
        v == MkVal("S", t, [i \in DOMAIN t |-> Fresh(S, ninst)])
    IN Do([heap EXCEPT ![r] = v],
          Ev("new", 0, [cls |-> "S", src |-> 0, text |-> t, S |-> S, inplace |-> 0], <<r>>, 0),
          [op |-> "new", text |-> t, S |-> S], Len(S))

Copy ==
  \E x \in Live :
    LET r == NextFree IN
    Do([heap EXCEPT ![r] = heap[x]], Ev("copy", x, [inplace |-> 0], <<r>>, 0), [op |-> "copy", r |-> x], 0)

Apply ==
  \E x \in Live, S \in SettingLists, top \in {0, 1} :
    LET v == heap[x] n == Len(v.t) IN
    \E st \in OptBounds(n) \ {<< >>}, en \in OptBounds(n) :
      LET lo == NormLo(st, n) hi == NormHi(en, n)
          w == RefApply(v, S, lo, hi, top = 1, ninst)
      IN Do([heap EXCEPT ![x] = w],
            Ev("apply", x, [S |-> S, start |-> st, end |-> en, top |-> top, inplace |-> 1], << >>, 0),
            [op |-> "apply", r |-> x, S |-> S, start |-> st, end |-> en, top |-> top], Len(S))

Remove ==
  \E x \in Live, all \in {0, 1}, sel \in SettingLists :
    LET v == heap[x] n == Len(v.t) IN
    \E st \in OptBounds(n) \ {<< >>}, en \in OptBounds(n) :
      (all = 1 => sel = << >>) /\
      LET lo == NormLo(st, n) hi == NormHi(en, n)
          w == RefRemove(v, Range(sel), all = 1, lo, hi)
      IN Do([heap EXCEPT ![x] = w],
            Ev("remove", x, [all |-> all, Sel |-> sel, start |-> st, end |-> en, inplace |-> 1], << >>, 0),
            [op |-> "remove", r |-> x, all |-> all, S |-> sel, start |-> st, end |-> en], 0)

Clear ==
  \E x \in Live :
    Do([heap EXCEPT ![x] = [heap[x] EXCEPT !.s = [i \in DOMAIN heap[x].s |-> << >>]]],
       Ev("clear", x, [inplace |-> 1], << >>, 0), [op |-> "clear", r |-> x], 0)

Slice ==
  \E x \in Live :
    LET v == heap[x] n == Len(v.t) r == NextFree IN
    \E st \in OptBounds(n), en \in OptBounds(n) :
      Do([heap EXCEPT ![r] = ValOfSegs("S", SliceSegs(x, n, st, en))],
         Ev("slice", x, [start |-> st, stop |-> en, inplace |-> 0], <<r>>, 0),
         [op |-> "slice", r |-> x, start |-> st, stop |-> en], 0)

Add ==
  \E x \in Live, y \in Live :
    Len(heap[x].t) + Len(heap[y].t) <= MaxTotalLen /\
    LET r == NextFree IN
    Do([heap EXCEPT ![r] = ValOfSegs("S", ConcatSegs(<<x, y>>, heap))],
       Ev("add", x, [other |-> y, inplace |-> 0], <<r>>, 0), [op |-> "add", r |-> x, other |-> y], 0)

IAdd ==
  \E x \in Live, y \in Live :
    Len(heap[x].t) + Len(heap[y].t) <= MaxTotalLen /\
    Do([heap EXCEPT ![x] = ValOfSegs("S", ConcatSegs(<<x, y>>, heap))],
       Ev("iadd", x, [other |-> y, inplace |-> 1], <<x>>, 1), [op |-> "iadd", r |-> x, other |-> y], 0)

Pad ==
  \E x \in Live, m \in {"ljust", "rjust", "center"}, ext \in {0, 1}, f \in Alphabet :
    LET v == heap[x] n == Len(v.t) r == NextFree IN
    \E width \in n..MaxTotalLen :
      LET pad == PadOf(m, n, width)
          w == ValOfSegs("S", PadSegs(x, n, pad, f, ext = 1))
      IN Do([heap EXCEPT ![r] = w],
            [Ev("pad", x, [m |-> m, width |-> width, fill |-> <<f>>, extend |-> ext, inplace |-> 0], <<r>>, 0)
               EXCEPT !.o = [pyout |-> "ok", py |-> [t |-> "s", v |-> w.t]]],
            [op |-> "pad", r |-> x, m |-> m, width |-> width, fill |-> f, extend |-> ext], 0)

Strip ==
  \E x \in Live, m \in {"strip", "lstrip", "rstrip"}, c \in Alphabet :
    LET v == heap[x] r == NextFree
        w == ValOfSegs("S", StripSegs(x, v.t, m, << <<c>> >>))
    IN Do([heap EXCEPT ![r] = w],
          [Ev("strip", x, [m |-> m, chars |-> << <<c>> >>, inplace |-> 0], <<r>>, 0)
             EXCEPT !.o = [pyout |-> "ok", py |-> [t |-> "s", v |-> w.t]]],
          [op |-> "strip", r |-> x, m |-> m, chars |-> <<c>>], 0)

Render ==
  \E x \in Live, opt \in {0, 1}, rs \in {0, 1}, re \in {0, 1} :
    LET v == heap[x] fl == <<opt, rs, re>> IN
    Do(heap,
       [Ev("render", x, [how |-> "to_str", spec |-> << >>, flags |-> fl, drift |-> 0, inplace |-> 0], << >>, 0)
          EXCEPT !.o = [out |-> RefRenderAll(v, fl),
                        valid |-> IF \A i \in DOMAIN v.s : \A k \in DOMAIN v.s[i] : ValidG(TextTable[v.s[i][k][2]]) THEN 1 ELSE 0,
                        parsable |-> IF ValAllSingle(v) THEN 1 ELSE 0]],
       [op |-> "render", r |-> x, flags |-> fl], 0)

\* AnsiString(text with escape sequences)  (C02)
NewParsed ==
  \E input \in ParseInputs :
    (\E i \in DOMAIN input : input[i] = ESC) /\
    LET r == NextFree v == RefParse(input, ninst) IN
    Do([heap EXCEPT ![r] = v],
       Ev("new", 0, [cls |-> "S", src |-> 0, text |-> input, S |-> << >>, inplace |-> 0], <<r>>, 0),
       [op |-> "new", text |-> input, S |-> << >>], 14)

\* AnsiString(str(s))  (C03 round trip)
Reparse ==
  \E x \in Live :
    LET r == NextFree v == RefParse(RefRenderAll(heap[x], <<1, 0, 1>>), ninst) IN
    Do([heap EXCEPT ![r] = v], Ev("reparse", x, [cls |-> "S", inplace |-> 0], <<r>>, 0), [op |-> "reparse", r |-> x], 14)

\* simplify()  (C03): re-parse of the own rendering, in place
Simplify ==
  \E x \in Live :
    LET v == RefParse(RefRenderAll(heap[x], <<1, 0, 1>>), ninst) IN
    Do([heap EXCEPT ![x] = v],
       [Ev("simplify", x, [inplace |-> 1], << >>, 0) EXCEPT !.o = [pyout |-> "ok", parsable |-> 1, q2 |-> << >>, rt |-> << >>]],
       [op |-> "simplify", r |-> x], 14)

Next ==
  /\ depth < MaxDepth
  /\ \/ (Free # {} /\ (New \/ Copy \/ Slice \/ Add \/ Pad \/ Strip))
     \/ Apply \/ Remove \/ Clear \/ IAdd \/ Render
     \/ (WithParse /\ ((Free # {} /\ (NewParsed \/ Reparse)) \/ Simplify))

Spec == Init /\ [][Next]_vars

---------------------------------------------------------------------------
\* Properties checked on the design
HeapShape == \A r \in Regs : WellShaped(heap[r])
NoOverlong == \A r \in Regs : Len(heap[r].t) <= MaxTotalLen

\* every contract clause of every listed property holds on every transition of the reference model
FailingClauses(e, pre, post) ==
  LET cl == Clauses(e, pre, post) IN {cl[i][1] : i \in {j \in DOMAIN cl : ~cl[j][3]}}
ContractsHold == [][FailingClauses(ev', heap, heap') = {}]_vars

\* only the state the properties talk about distinguishes states; history variables are hidden
View == <<heap, depth>>

\* export: one history per transition of the reachable graph (the harness replays them on the real objects)
Export == PrintT(ToJson([h |-> hist']))
NoExport == TRUE
=============================================================================
