---------------------------- MODULE TraceHistory ----------------------------
(***************************************************************************)
(* Trace validation: a batch of histories recorded from the real           *)
(* implementation (env VERIF_BATCH, JSON) is replayed as a state machine.  *)
(* The state is the heap of abstract values; each recorded event is one    *)
(* step whose post-state is the logged one, and every contract clause of   *)
(* AnsiOps is evaluated on (heap, event, heap').                           *)
(*                                                                         *)
(* Verdicts are total: a failing clause never blocks the trace - it is     *)
(* recorded, the logged post-state is adopted, and the rest of the trace   *)
(* is still judged.  Finish prints exactly one verdict line per trace.     *)
(***************************************************************************)
EXTENDS ChangePoints

Batch == JsonDeserialize(IOEnv.VERIF_BATCH)      \* Seq([id, nregs, ev])
NTraces == Len(Batch)

VARIABLES tid, l, heap, fails, nt
vars == <<tid, l, heap, fails, nt>>

ApplyUpd(h, upd) ==
  [r \in DOMAIN h |->
     IF \E i \in DOMAIN upd : upd[i][1] = r
     THEN upd[CHOOSE i \in DOMAIN upd : upd[i][1] = r][2]
     ELSE h[r]]

Init ==
  /\ tid \in 1..NTraces
  /\ l = 1
  /\ heap = [r \in 1..Batch[tid].nregs |-> Absent]
  /\ fails = << >>
  /\ nt = << >>

Bump(f, names) ==
  [k \in DOMAIN f \cup names |->
     (IF k \in DOMAIN f THEN f[k] ELSE 0) + (IF k \in names THEN 1 ELSE 0)]

\* One event is judged ONCE, as an expression: TLC never caches LET definitions that stand directly in an action (their
\* value could depend on the successor under construction), so a LET around the primed conjuncts re-evaluated every
\* clause once per reference (dozens of times per event).  The verdict is bound through a singleton set instead.
Judge(e, h, at) ==
  LET post == ApplyUpd(h, e.upd)
      cl   == Clauses(e, h, post) \o DriftClauses(e, h, post)
      bad  == SelectSeq(cl, LAMBDA c : ~c[3])
  IN [post  |-> post,
      fails |-> [i \in DOMAIN bad |-> <<at, bad[i][1]>>],
      names |-> {cl[i][1] : i \in {j \in DOMAIN cl : cl[j][2]}}]

Step ==
  /\ l <= Len(Batch[tid].ev)
  /\ \E j \in {Judge(Batch[tid].ev[l], heap, l)} :
        /\ heap' = j.post
        /\ fails' = fails \o j.fails
        /\ nt' = Bump(nt, j.names)
  /\ l' = l + 1
  /\ tid' = tid

Finish ==
  /\ l = Len(Batch[tid].ev) + 1
  /\ PrintT(ToJson([tid |-> Batch[tid].id, n |-> l - 1, fails |-> fails, nt |-> nt]))
  /\ l' = l + 1
  /\ UNCHANGED <<tid, heap, fails, nt>>

Next == Step \/ Finish
Spec == Init /\ [][Next]_vars

\* the heap is always well shaped (also reported per event as clause inv.shape)
TypeOK == l \in 1..(Len(Batch[tid].ev) + 2)
=============================================================================
