-------------------------------- MODULE SGR --------------------------------
(***************************************************************************)
(* SGR (Select Graphic Rendition) semantics, written from ECMA-48 and the   *)
(* library's documentation -- deliberately NOT derived from ansi_param.py.  *)
(*                                                                         *)
(* All text is a sequence of code points (Seq(Nat)) because TLC strings    *)
(* are atomic.  A "setting text" is what str(AnsiSetting) returns, e.g.     *)
(* <<51,56,59,53,59,49>> for "38;5;1".                                      *)
(***************************************************************************)
EXTENDS Integers, Sequences, FiniteSets

\* The 14 stateful effect groups (the 15th group of the library, RESET, is
\* stateless and is modelled as the effect <<"reset", <<>> >>).
Groups == {"bold", "ital", "ul", "blink", "swap", "hide", "cross", "font",
           "space", "box", "over", "fg", "bg", "ulc"}

GroupOf(c) ==
  CASE c \in {1, 2, 22}                 -> "bold"
    [] c \in {3, 23}                    -> "ital"
    [] c \in {4, 21, 24}                -> "ul"
    [] c \in {5, 6, 25}                 -> "blink"
    [] c \in {7, 27}                    -> "swap"
    [] c \in {8, 28}                    -> "hide"
    [] c \in {9, 29}                    -> "cross"
    [] c \in 10..20                     -> "font"
    [] c \in {26, 50}                   -> "space"
    [] c \in {51, 52, 54}               -> "box"
    [] c \in {53, 55}                   -> "over"
    [] c \in (30..39) \cup (90..97)     -> "fg"
    [] c \in (40..49) \cup (100..107)   -> "bg"
    [] c \in {58, 59}                   -> "ulc"
    [] OTHER                            -> "none"

\* Codes that put their group back to the terminal default.  10 (primary
\* font) is the default font, so it is a clear code for the terminal even
\* though the library files it as an "apply" code.
ClearCodes == {22, 23, 24, 25, 27, 28, 29, 10, 50, 54, 55, 39, 49, 59}
IsExt(c)   == c \in {38, 48, 58}
KnownCode(c) == c = 0 \/ GroupOf(c) # "none"

\* The clear code of each group (what a renderer must emit to switch it off)
ClearCodeOf(g) ==
  CASE g = "bold" -> 22 [] g = "ital" -> 23 [] g = "ul" -> 24 [] g = "blink" -> 25
    [] g = "swap" -> 27 [] g = "hide" -> 28 [] g = "cross" -> 29 [] g = "font" -> 10
    [] g = "space" -> 50 [] g = "box" -> 54 [] g = "over" -> 55 [] g = "fg" -> 39
    [] g = "bg" -> 49 [] g = "ulc" -> 59

---------------------------------------------------------------------------
\* Code-point helpers
SEMI  == 59
ESC   == 27
LBRK  == 91
LOWM  == 109
IsDigit(cp) == cp \in 48..57

RECURSIVE SplitOn(_, _)
SplitOn(s, sep) ==
  IF \A i \in DOMAIN s : s[i] # sep THEN << s >>
  ELSE LET p == CHOOSE i \in DOMAIN s : s[i] = sep /\ \A j \in 1..(i-1) : s[j] # sep
       IN  << SubSeq(s, 1, p-1) >> \o SplitOn(SubSeq(s, p+1, Len(s)), sep)

RECURSIVE StripZeros(_)
StripZeros(d) == IF Len(d) > 1 /\ d[1] = 48 THEN StripZeros(Tail(d)) ELSE d

RECURSIVE NumVal(_)
NumVal(d) == IF d = << >> THEN 0
             ELSE NumVal(SubSeq(d, 1, Len(d)-1)) * 10 + (d[Len(d)] - 48)

BigNum == 99999999
\* Decimal value of a non-empty digit string (TLC integers are 32 bit)
Num(d) == LET z == StripZeros(d) IN IF Len(z) > 7 THEN BigNum ELSE NumVal(z)

AllDigits(d) == d # << >> /\ \A i \in DOMAIN d : IsDigit(d[i])

\* A parameter list "p1;p2;...": ok iff every parameter is a non-empty digit string
ParamList(text) ==
  LET parts == SplitOn(text, SEMI) IN
  IF \A i \in DOMAIN parts : AllDigits(parts[i])
  THEN [ok |-> TRUE,  ps |-> [i \in DOMAIN parts |-> Num(parts[i])]]
  ELSE [ok |-> FALSE, ps |-> << >>]

---------------------------------------------------------------------------
(***************************************************************************)
(* A conforming terminal's reading of a list of integer parameters: the    *)
(* list of effects it performs, in order.  An effect is <<group, value>>;  *)
(* value << >> is "default".  ok = FALSE marks lists on which terminals    *)
(* differ (unknown colour mode, colour argument > 255): those are outside  *)
(* every claim.  An extended-colour group cut off by the end of the list   *)
(* contributes nothing; unknown codes are ignored.                         *)
(***************************************************************************)
RECURSIVE EffsFrom(_, _)
EffsFrom(ps, i) ==
  IF i > Len(ps) THEN [ok |-> TRUE, effs |-> << >>]
  ELSE LET c == ps[i] IN
    IF IsExt(c) THEN
      IF i = Len(ps) THEN [ok |-> TRUE, effs |-> << >>]
      ELSE IF ps[i+1] = 5 THEN
        IF i + 2 > Len(ps) THEN [ok |-> TRUE, effs |-> << >>]
        ELSE IF ps[i+2] > 255 THEN [ok |-> FALSE, effs |-> << >>]
        ELSE LET r == EffsFrom(ps, i+3) IN
             [ok |-> r.ok, effs |-> << <<GroupOf(c), <<c, 5, ps[i+2]>> >> >> \o r.effs]
      ELSE IF ps[i+1] = 2 THEN
        IF i + 4 > Len(ps) THEN [ok |-> TRUE, effs |-> << >>]
        ELSE IF ps[i+2] > 255 \/ ps[i+3] > 255 \/ ps[i+4] > 255 THEN [ok |-> FALSE, effs |-> << >>]
        ELSE LET r == EffsFrom(ps, i+5) IN
             [ok |-> r.ok,
              effs |-> << <<GroupOf(c), <<c, 2, ps[i+2], ps[i+3], ps[i+4]>> >> >> \o r.effs]
      ELSE [ok |-> FALSE, effs |-> << >>]
    ELSE LET r == EffsFrom(ps, i+1) IN
      IF c = 0 THEN [ok |-> r.ok, effs |-> << <<"reset", << >> >> >> \o r.effs]
      ELSE IF GroupOf(c) = "none" THEN r
      ELSE [ok |-> r.ok,
            effs |-> << <<GroupOf(c), IF c \in ClearCodes THEN << >> ELSE <<c>> >> >> \o r.effs]

TermEffs(ps) == EffsFrom(ps, 1)

\* Does the list end inside an extended-colour group?  Such a list is not self-contained: what a terminal
\* makes of it depends on the parameters that follow it in the same sequence.
RECURSIVE TruncFrom(_, _)
TruncFrom(ps, i) ==
  IF i > Len(ps) THEN FALSE
  ELSE IF IsExt(ps[i]) THEN
    IF i = Len(ps) THEN TRUE
    ELSE IF ps[i+1] = 5 THEN (IF i + 2 > Len(ps) THEN TRUE ELSE TruncFrom(ps, i + 3))
    ELSE IF ps[i+1] = 2 THEN (IF i + 4 > Len(ps) THEN TRUE ELSE TruncFrom(ps, i + 5))
    ELSE FALSE
  ELSE TruncFrom(ps, i + 1)
EndsTruncated(ps) == TruncFrom(ps, 1)

\* Is the integer list exactly ONE complete known parameter group other than reset?
SingleGroup(ps) ==
  /\ Len(ps) >= 1
  /\ ps[1] # 0
  /\ GroupOf(ps[1]) # "none"
  /\ IF IsExt(ps[1])
     THEN \/ (Len(ps) = 3 /\ ps[2] = 5 /\ ps[3] <= 255)
          \/ (Len(ps) = 5 /\ ps[2] = 2 /\ ps[3] <= 255 /\ ps[4] <= 255 /\ ps[5] <= 255)
     ELSE Len(ps) = 1

(***************************************************************************)
(* Semantics of one setting text.                                          *)
(*   cls = "single": one complete known group (what the library calls      *)
(*                   parsable; the only class display claims are made for) *)
(*         "multi" : digits and ';' only and read unambiguously by a       *)
(*                   terminal, but not a single group (e.g. "1;31", "0")   *)
(*         "other" : everything else (also a list that ends inside an      *)
(*                   extended-colour group: its reading depends on what    *)
(*                   follows it in the rendered sequence)                  *)
(***************************************************************************)
SemOf(text) ==
  LET pl == ParamList(text) IN
  IF ~pl.ok THEN [cls |-> "other", effs |-> << >>]
  ELSE LET r == TermEffs(pl.ps) IN
       IF ~r.ok \/ EndsTruncated(pl.ps) THEN [cls |-> "other", effs |-> << >>]
       ELSE [cls |-> IF SingleGroup(pl.ps) THEN "single" ELSE "multi", effs |-> r.effs]

---------------------------------------------------------------------------
\* Terminal state
DefaultState == [g \in Groups |-> << >>]

ApplyEff(sig, e) == IF e[1] = "reset" THEN DefaultState ELSE [sig EXCEPT ![e[1]] = e[2]]

RECURSIVE RunEffs(_, _, _)
RunEffs(sig, effs, i) == IF i > Len(effs) THEN sig ELSE RunEffs(ApplyEff(sig, effs[i]), effs, i+1)
TermRun(sig, effs) == RunEffs(sig, effs, 1)

\* Groups an effect list touches (reset touches all)
EffTouch(effs) ==
  IF \E i \in DOMAIN effs : effs[i][1] = "reset" THEN Groups
  ELSE {effs[i][1] : i \in DOMAIN effs}

\* An adversarial prior terminal state (every group set to a sentinel value)
DirtyState == [g \in Groups |-> <<999>>]
=============================================================================
