------------------------------ MODULE Settings ------------------------------
(***************************************************************************)
(* C14: the documented spellings of a setting and what they denote.        *)
(* A settings argument is described to the spec as a flat sequence of      *)
(* LEAVES (the harness nests them into lists/tuples at random; flattening  *)
(* in order is part of the property):                                      *)
(*   [k |-> "name",  v |-> spelling, mname |-> canonical member name,      *)
(*                   member |-> texts of AnsiFormat[mname].ansi_settings]  *)
(*   [k |-> "ints",  v |-> <<n1, n2, ...>>]   one run of integer codes     *)
(*   [k |-> "verb",  v |-> text]              "[" + text / AnsiSetting     *)
(*   [k |-> "rgbs",  v |-> string]            "rgb(..)"/"color256(..)"     *)
(*   [k |-> "rgbc",  comp |-> c, args |-> <<..>>, fn |-> "rgb"|"c256"]     *)
(* The colour table (name -> codes) is not part of the claim: it is taken  *)
(* from the trace (member); that a spelling canonicalises to the member's  *)
(* name is checked here.                                                   *)
(***************************************************************************)
EXTENDS SGR

\* ---- names -------------------------------------------------------------
CanonCp(c) == IF c \in 97..122 THEN c - 32 ELSE IF c \in {32, 45} THEN 95 ELSE c
Canon(s) == [i \in DOMAIN s |-> CanonCp(s[i])]

\* ---- integer runs ------------------------------------------------------
\* Decimal text of a natural number
RECURSIVE Dec(_)
Dec(n) == IF n < 10 THEN <<48 + n>> ELSE Dec(n \div 10) \o <<48 + (n % 10)>>
RECURSIVE JoinDec(_, _)
JoinDec(ns, i) == IF i > Len(ns) THEN << >>
                  ELSE Dec(ns[i]) \o (IF i < Len(ns) THEN <<SEMI>> ELSE << >>) \o JoinDec(ns, i + 1)

\* a run of integer codes grouped the way a terminal reads it: complete extended-colour groups stay together,
\* every other code is a setting of its own
RECURSIVE GroupInts(_, _)
GroupInts(ps, i) ==
  IF i > Len(ps) THEN << >>
  ELSE IF IsExt(ps[i]) /\ i + 2 <= Len(ps) /\ ps[i+1] = 5
       THEN << JoinDec(SubSeq(ps, i, i + 2), 1) >> \o GroupInts(ps, i + 3)
  ELSE IF IsExt(ps[i]) /\ i + 4 <= Len(ps) /\ ps[i+1] = 2
       THEN << JoinDec(SubSeq(ps, i, i + 4), 1) >> \o GroupInts(ps, i + 5)
  ELSE << Dec(ps[i]) >> \o GroupInts(ps, i + 1)

\* the claim covers runs without a dangling 38/48/58 (the library keeps those, grouped its own way)
RECURSIVE IntsInClaim(_, _)
IntsInClaim(ps, i) ==
  IF i > Len(ps) THEN TRUE
  ELSE IF IsExt(ps[i]) THEN
    IF i + 2 <= Len(ps) /\ ps[i+1] = 5 THEN IntsInClaim(ps, i + 3)
    ELSE IF i + 4 <= Len(ps) /\ ps[i+1] = 2 THEN IntsInClaim(ps, i + 5)
    ELSE FALSE
  ELSE IntsInClaim(ps, i + 1)

\* ---- rgb()/color256() ---------------------------------------------------
Clamp255(x) == IF x < 0 THEN 0 ELSE IF x > 255 THEN 255 ELSE x

\* comp: "fg" | "bg" | "ul" | "dul"
ColourTexts(comp, tail) ==
  CASE comp = "fg"  -> << JoinDec(<<38>> \o tail, 1) >>
    [] comp = "bg"  -> << JoinDec(<<48>> \o tail, 1) >>
    [] comp = "ul"  -> << <<52>>, JoinDec(<<58>> \o tail, 1) >>            \* "4"
    [] comp = "dul" -> << <<50, 49>>, JoinDec(<<58>> \o tail, 1) >>        \* "21"

RgbTexts(comp, args) ==
  IF Len(args) = 3 THEN ColourTexts(comp, <<2, Clamp255(args[1]), Clamp255(args[2]), Clamp255(args[3])>>)
  ELSE LET v == args[1] IN ColourTexts(comp, <<2, (v \div 65536) % 256, (v \div 256) % 256, v % 256>>)
C256Texts(comp, n) == ColourTexts(comp, <<5, n>>)

\* string forms
IsWSc(c) == c \in {32, 9, 10, 11, 12, 13}
RECURSIVE TrimL(_)
TrimL(s) == IF s # << >> /\ IsWSc(s[1]) THEN TrimL(Tail(s)) ELSE s
RECURSIVE TrimR(_)
TrimR(s) == IF s # << >> /\ IsWSc(s[Len(s)]) THEN TrimR(SubSeq(s, 1, Len(s) - 1)) ELSE s
Trim(s) == TrimR(TrimL(s))
HasPrefix(s, p) == Len(p) <= Len(s) /\ SubSeq(s, 1, Len(p)) = p
Drop(s, n) == SubSeq(s, n + 1, Len(s))

IsHexDigit(c) == c \in 48..57 \/ c \in 97..102 \/ c \in 65..70
HexVal(c) == IF c \in 48..57 THEN c - 48 ELSE IF c \in 97..102 THEN c - 87 ELSE c - 55
RECURSIVE HexNum(_)
HexNum(d) == IF d = << >> THEN 0 ELSE HexNum(SubSeq(d, 1, Len(d) - 1)) * 16 + HexVal(d[Len(d)])

\* one numeric component: [ok, big, v]
NumComp(c0) ==
  LET c == Trim(c0) IN
  IF HasPrefix(c, <<48, 120>>) THEN                                   \* "0x"
    LET d == Drop(c, 2) IN
    IF d = << >> \/ \E i \in DOMAIN d : ~IsHexDigit(d[i]) THEN [ok |-> FALSE, big |-> FALSE, v |-> 0]
    ELSE IF Len(StripZeros(d)) > 7 THEN [ok |-> TRUE, big |-> TRUE, v |-> 0]
    ELSE [ok |-> TRUE, big |-> FALSE, v |-> HexNum(StripZeros(d))]
  ELSE IF ~AllDigits(c) THEN [ok |-> FALSE, big |-> FALSE, v |-> 0]
  ELSE IF Len(StripZeros(c)) > 8 THEN [ok |-> TRUE, big |-> TRUE, v |-> 0]
  ELSE [ok |-> TRUE, big |-> FALSE, v |-> Num(c)]

\* [kind |-> "rgb"|"c256"|"none", comp, ok (well formed), claim (readings agree / in range), args]
ParseColourString(s) ==
  LET pre == IF HasPrefix(s, <<100, 117, 108, 95>>) THEN <<"dul", 4>>            \* dul_
             ELSE IF HasPrefix(s, <<117, 108, 95>>) THEN <<"ul", 3>>              \* ul_
             ELSE IF HasPrefix(s, <<98, 103, 95>>) THEN <<"bg", 3>>               \* bg_
             ELSE IF HasPrefix(s, <<102, 103, 95>>) THEN <<"fg", 3>>              \* fg_
             ELSE <<"fg", 0>>
      r1 == Drop(s, pre[2])
      fn == IF HasPrefix(r1, <<114, 103, 98, 40>>) THEN <<"rgb", 4>>                                           \* rgb(
            ELSE IF HasPrefix(r1, <<99, 111, 108, 111, 114, 50, 53, 54, 40>>) THEN <<"c256", 9>>              \* color256(
            ELSE IF HasPrefix(r1, <<99, 111, 108, 111, 117, 114, 50, 53, 54, 40>>) THEN <<"c256", 10>>        \* colour256(
            ELSE <<"none", 0>>
      none == [kind |-> "none", comp |-> "fg", ok |-> FALSE, claim |-> FALSE, args |-> << >>]
  IN IF fn[1] = "none" \/ s[Len(s)] # 41 THEN none
     ELSE LET inner0 == SubSeq(r1, fn[2] + 1, Len(r1) - 1)
              opn == inner0 # << >> /\ inner0[1] \in {91, 40}
              cls == inner0 # << >> /\ inner0[Len(inner0)] \in {93, 41}
              inner == SubSeq(inner0, IF opn THEN 2 ELSE 1, IF cls THEN Len(inner0) - 1 ELSE Len(inner0))
              balanced == (opn = cls) /\ (opn => ((inner0[1] = 91) = (inner0[Len(inner0)] = 93)))
              parts == SplitOn(inner, 44)
              comps == [i \in DOMAIN parts |-> NumComp(parts[i])]
              wf == (\A i \in DOMAIN comps : comps[i].ok)
                    /\ (IF fn[1] = "rgb" THEN Len(parts) \in {1, 3} ELSE Len(parts) = 1)
              vals == [i \in DOMAIN comps |-> comps[i].v]
              inrange == (\A i \in DOMAIN comps : ~comps[i].big)
                         /\ (fn[1] = "c256" => vals[1] <= 255)
                         /\ (fn[1] = "rgb" /\ Len(parts) = 1 => vals[1] <= 16777215)
          IN [kind |-> fn[1], comp |-> pre[1], ok |-> wf, claim |-> balanced /\ (wf => inrange), args |-> vals]

=============================================================================
