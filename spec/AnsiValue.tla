----------------------------- MODULE AnsiValue -----------------------------
(***************************************************************************)
(* The abstract state of the library: values (text + per-character ordered *)
(* list of reported settings), the table of setting texts, display, and    *)
(* the two comparison relations every contract is phrased in.              *)
(*                                                                         *)
(* A reported setting is <<inst, tid>>: inst numbers the AnsiSetting       *)
(* object (identity), tid indexes the table of distinct setting texts.     *)
(* The table comes from a JSON file (env VERIF_TEXTS) for trace validation *)
(* and for the design models alike, so that Sem is a cached constant.      *)
(***************************************************************************)
EXTENDS CtrlSeq, TLC, Json, IOUtils

TextTable == JsonDeserialize(IOEnv.VERIF_TEXTS)          \* Seq(Seq(Nat))
TextIds   == DOMAIN TextTable
\* explicit tables, computed once: [i \in S |-> e] alone is a closure that TLC re-evaluates on every application, and the
\* definitions below are looked up for every setting of every character; s \o << >> is a tuple of values
Sem       == [i \in TextIds |-> SemOf(TextTable[i])] \o << >>
Touch     == [i \in TextIds |-> EffTouch(Sem[i].effs)] \o << >>
ParamOnly == [i \in TextIds |-> \A k \in DOMAIN TextTable[i] : IsParamByte(TextTable[i][k])] \o << >>

\* kinds: "S" AnsiString, "A" AnsiStr, "P" plain str, "N" not (yet) allocated
Absent == [k |-> "N", t |-> << >>, s |-> << >>, p |-> << >>, q |-> << >>, b |-> 0, f |-> << >>]

IsVal(v)     == v.k \in {"S", "A", "P"} /\ v.b = 0
WellShaped(v) == Len(v.s) = Len(v.t)

Tids(L) == [k \in DOMAIN L |-> L[k][2]]
Insts(L) == [k \in DOMAIN L |-> L[k][1]]

CountIn(x, s) == Cardinality({k \in DOMAIN s : s[k] = x})
BagEq(a, b)   == Len(a) = Len(b) /\ \A k \in DOMAIN a : CountIn(a[k], a) = CountIn(a[k], b)
\* b = a (+) extra as bags
BagPlus(a, extra, b) ==
  /\ Len(b) = Len(a) + Len(extra)
  /\ \A k \in DOMAIN b : CountIn(b[k], b) = CountIn(b[k], a) + CountIn(b[k], extra)

TouchedBy(ids) == UNION {Touch[ids[k]] : k \in DOMAIN ids}
SubG(ids, g)   == SelectSeq(ids, LAMBDA t : g \in Touch[t])

(***************************************************************************)
(* "The same settings, with the same precedence among conflicting          *)
(* settings": equal as bags of texts, and for every effect group the       *)
(* subsequence of settings touching it is equal.                           *)
(***************************************************************************)
EquivIds(a, b) == a = b \/ (BagEq(a, b) /\ \A g \in TouchedBy(a) : SubG(a, g) = SubG(b, g))
Equiv(L1, L2)  == EquivIds(Tids(L1), Tids(L2))

RECURSIVE EffsOfIds(_, _)
EffsOfIds(ids, i) == IF i > Len(ids) THEN << >> ELSE Sem[ids[i]].effs \o EffsOfIds(ids, i+1)

DisplayIds(ids) == TermRun(DefaultState, EffsOfIds(ids, 1))
Display(L)      == DisplayIds(Tids(L))
DisplayFrom(sig, L) == TermRun(sig, EffsOfIds(Tids(L), 1))

AllSingleIds(ids) == \A k \in DOMAIN ids : Sem[ids[k]].cls = "single"
AllSingle(L)      == AllSingleIds(Tids(L))
ValAllSingle(v)   == \A i \in DOMAIN v.s : AllSingle(v.s[i])

EquivVal(v, w) == /\ v.t = w.t
                  /\ Len(v.s) = Len(w.s)
                  /\ \A i \in DOMAIN v.s : Equiv(v.s[i], w.s[i])

SameDisplay(v, w) == /\ v.t = w.t
                     /\ Len(v.s) = Len(w.s)
                     /\ \A i \in DOMAIN v.s : Display(v.s[i]) = Display(w.s[i])

NoStyle(v) == \A i \in DOMAIN v.s : v.s[i] = << >>

\* no setting whose reading by a terminal is undefined/ambiguous
ValReadable(v) == \A i \in DOMAIN v.s : \A k \in DOMAIN v.s[i] : Sem[v.s[i][k][2]].cls # "other"
NoEsc(t) == \A i \in DOMAIN t : t[i] # ESC

---------------------------------------------------------------------------
\* Python slice normalisation of one bound (opt = << >> for None, <<n>> for an int)
NormBound(opt, n, dflt) ==
  IF opt = << >> THEN dflt
  ELSE LET x == opt[1] IN
       IF x < 0 THEN (IF n + x < 0 THEN 0 ELSE n + x)
       ELSE IF x > n THEN n ELSE x

\* Normalised [lo, hi) of a Python slice a[start:stop] on a string of length n
NormLo(start, n) == NormBound(start, n, 0)
NormHi(stop, n)  == NormBound(stop, n, n)

Range(f) == {f[x] : x \in DOMAIN f}

\* a contract clause: <<name, evaluated non-trivially?, holds?>>
Cl(name, nontriv, holds) == << <<name, nontriv, holds>> >>
None == << >>
MinOf(a, b) == IF a < b THEN a ELSE b
MaxOf(a, b) == IF a > b THEN a ELSE b
=============================================================================
