---------------------------- MODULE ChangePoints ----------------------------
(***************************************************************************)
(* The concrete layer - implementation-shaped on purpose.                  *)
(*                                                                         *)
(* State: for every register the base text and the CHANGE-POINT TABLE      *)
(*     f : key -> [add : Seq(Inst), rem : Seq(Inst)]                       *)
(* exactly as AnsiString._fmts (Inst = <<object id, text id>>).  The       *)
(* table-editing algorithms of ansi_string.py are transcribed branch for   *)
(* branch (one operator per method), including where the code compares by  *)
(* value and where by reference.  TLC explores every table reachable by    *)
(* these operations within the bounds and checks on every transition       *)
(*   - WF: the library's own self-check (every stop marker matches an      *)
(*     active object), no key past the end, nothing active at the end;     *)
(*   - refinement: Abs(post) satisfies every abstract contract clause of   *)
(*     AnsiOps with respect to Abs(pre) - i.e. the listed properties;      *)
(*   - the argument tables are not modified.                               *)
(* The transcription is bound to the code by DRIFT detection               *)
(* (TraceHistory: clause "drift.*"): the recorder logs the raw tables and  *)
(* the transcribed operator is run on the logged pre-table; a mismatch     *)
(* means the code no longer follows the transcription (never a property    *)
(* violation by itself).                                                   *)
(***************************************************************************)
EXTENDS AnsiOps
LOCAL SX == INSTANCE SequencesExt

Pt(a, r) == [add |-> a, rem |-> r]
EmptyPt == Pt(<< >>, << >>)
IsEmptyPt(p) == p.add = << >> /\ p.rem = << >>

RECURSIVE SortedSeq(_)
SortedSeq(S) == IF S = {} THEN << >>
                ELSE LET m == CHOOSE x \in S : \A y \in S : x <= y IN <<m>> \o SortedSeq(S \ {m})
\* Tables are kept as CONCRETE functions: TLC represents [x \in S |-> e] lazily (a closure evaluated on every
\* application), and closures nested by a loop of table updates made one replace() of 24 matches take minutes.
\* f @@ g (TLC module, evaluated in Java) yields an explicit function; the left operand wins on shared keys.
Strict(f) == f @@ << >>
\* ... and a sequence written [i \in 1..n |-> e] is a closure too (every s[i] re-evaluates e): s \o << >> is a tuple of values.
\* A closure whose body mentions the previous table twice, applied once per loop iteration, doubled the work per iteration.
StrictSeq(s) == s \o << >>
WithKey(f, k) == IF k \in DOMAIN f THEN f ELSE (k :> EmptyPt) @@ f
SetPt(f, k, p) == (k :> p) @@ f
DropKey(f, k) == Strict([x \in DOMAIN f \ {k} |-> f[x]])
DropEmpty(f) == Strict([x \in {k \in DOMAIN f : ~IsEmptyPt(f[k])} |-> f[x]])
EmptyTab == [x \in {} |-> EmptyPt]

\* _find_setting_reference: 1-based index of the first element that IS x (same object), 0 if none
FindRef(x, L) == IF \E k \in DOMAIN L : L[k][1] = x[1]
                 THEN CHOOSE k \in DOMAIN L : L[k][1] = x[1] /\ \A j \in 1..(k-1) : L[j][1] # x[1]
                 ELSE 0
\* value comparison (AnsiSetting.__eq__ compares the text)
InByValue(x, L) == \E k \in DOMAIN L : L[k][2] = x[2]
DelAt(L, k) == SubSeq(L, 1, k - 1) \o SubSeq(L, k + 1, Len(L))

---------------------------------------------------------------------------
\* _AnsiSettingsIterator.__next__: remove what it is time to remove (by reference), then add
RECURSIVE RemAll(_, _, _)
RemAll(cur, rem, i) ==
  IF i > Len(rem) THEN [c |-> cur, bad |-> FALSE]
  ELSE LET k == FindRef(rem[i], cur) IN
       IF k = 0 THEN [c |-> RemAll(cur, rem, i + 1).c, bad |-> TRUE]
       ELSE RemAll(DelAt(cur, k), rem, i + 1)
IterStep(cur, p) == LET r == RemAll(cur, p.rem, 1) IN [c |-> r.c \o p.add, bad |-> r.bad]

\* the sequence of iterator states: its[j] = <<key, current settings after key, self-check failed so far>>
RECURSIVE IterFrom(_, _, _, _, _)
IterFrom(f, ks, j, cur, bad) ==
  IF j > Len(ks) THEN << >>
  ELSE LET r == IterStep(cur, f[ks[j]]) IN
       << <<ks[j], r.c, bad \/ r.bad>> >> \o IterFrom(f, ks, j + 1, r.c, bad \/ r.bad)
Iter(f) == IterFrom(f, SortedSeq(DOMAIN f), 1, << >>, FALSE)

\* ansi_settings_at(idx)
SettingsAt(n, f, idx) ==
  IF idx < 0 \/ idx >= n THEN << >>
  ELSE LET it == Iter(f)
           ok == {j \in DOMAIN it : it[j][1] <= idx}
       IN IF ok = {} THEN << >> ELSE it[CHOOSE j \in ok : \A q \in ok : q <= j][2]

\* refinement mapping to the abstract value
AbsVal(k, t, f) == [k |-> k, t |-> t, s |-> StrictSeq([i \in DOMAIN t |-> SettingsAt(Len(t), f, i - 1)]),
                    p |-> << >>, q |-> << >>, b |-> 0]

\* the library's consistency: the self-check never fails, no key past the end, nothing active at the end
WFTab(t, f) ==
  LET it == Iter(f) IN
  /\ \A k \in DOMAIN f : k >= 0 /\ k <= Len(t)
  /\ \A j \in DOMAIN it : ~it[j][3]
  /\ (it # << >> => it[Len(it)][2] = << >>)
  /\ (Len(t) \in DOMAIN f => f[Len(t)].add = << >>)

\* _slice_val_to_idx (with the clamp)
SliceIdx(optv, n, dflt) ==
  IF optv = << >> THEN dflt
  ELSE LET x == optv[1] IN IF x < 0 THEN (IF n + x < 0 THEN 0 ELSE n + x) ELSE (IF x > n THEN n ELSE x)

---------------------------------------------------------------------------
\* apply_formatting(settings, start, end, topmost); new = the freshly scrubbed AnsiSetting objects
CPApply(t, f, new, start, end, topmost) ==
  LET n == Len(t) st == SliceIdx(start, n, 0) en == SliceIdx(end, n, n) IN
  IF new = << >> \/ st >= n \/ en <= st THEN f
  ELSE
    LET f1 == WithKey(f, st)
        p1 == f1[st]
        f2 == SetPt(f1, st, Pt(IF topmost THEN p1.add \o new ELSE new \o p1.add, p1.rem))
        f3 == IF topmost THEN f2
              ELSE LET atStart == SettingsAt(n, f2, st)
                       raa == SelectSeq(atStart, LAMBDA s : FindRef(s, f2[st].add) = 0)
                       p2 == f2[st]
                   IN IF raa = << >> THEN f2
                      ELSE SetPt(f2, st, Pt(SubSeq(p2.add, 1, Len(new)) \o raa \o SubSeq(p2.add, Len(new) + 1, Len(p2.add)),
                                            p2.rem \o raa))
        \* topmost: at every index strictly inside the range where settings are stopped and restarted (same object in
        \* rem and add), the new settings are restarted too, directly above the restarted ones
        Restarted(p) == {i \in DOMAIN p.add : FindRef(p.add[i], p.rem) # 0}
        f3b == IF ~topmost THEN f3
               ELSE Strict([k \in DOMAIN f3 |->
                       IF st < k /\ k < en /\ Restarted(f3[k]) # {}
                       THEN LET p == f3[k]
                                last == CHOOSE i \in Restarted(p) : \A j \in Restarted(p) : j <= i
                            IN Pt(SubSeq(p.add, 1, last) \o new \o SubSeq(p.add, last + 1, Len(p.add)), p.rem \o new)
                       ELSE f3[k]])
        f4 == WithKey(f3b, en)
        p4 == f4[en]
    IN SetPt(f4, en, Pt(p4.add, IF topmost THEN p4.rem \o new ELSE new \o p4.rem))

---------------------------------------------------------------------------
\* remove_formatting(settings, start, end); all = settings is None; Sel = set of text ids to remove
Matches(s, all, Sel) == all \/ s[2] \in Sel

\* the body at idx == start: for s in current_settings ...
RECURSIVE RmAtStart(_, _, _, _, _, _)
RmAtStart(cur, i, p, removed, all, Sel) ==
  IF i > Len(cur) THEN [p |-> p, removed |-> removed]
  ELSE LET s == cur[i] IN
       IF ~Matches(s, all, Sel) THEN RmAtStart(cur, i + 1, p, removed, all, Sel)
       ELSE LET k == FindRef(s, p.add) IN
            IF k = 0 THEN RmAtStart(cur, i + 1, Pt(p.add, p.rem \o <<s>>), removed \o <<s>>, all, Sel)
            ELSE RmAtStart(cur, i + 1, Pt(DelAt(p.add, k), p.rem), removed \o <<s>>, all, Sel)

\* for i in reversed(range(len(p.rem))): drop stop markers of settings that were removed
RECURSIVE RmDropRems(_, _, _)
RmDropRems(rem, i, removed) ==
  IF i < 1 THEN [rem |-> rem, removed |-> removed]
  ELSE LET k == FindRef(rem[i], removed) IN
       IF k = 0 THEN RmDropRems(rem, i - 1, removed)
       ELSE RmDropRems(DelAt(rem, i), i - 1, DelAt(removed, k))

\* for i in reversed(range(len(p.add))): settings starting inside the range
RECURSIVE RmDropAdds(_, _, _, _, _)
RmDropAdds(add, i, removed, all, Sel) ==
  IF i < 1 THEN [add |-> add, removed |-> removed]
  ELSE IF Matches(add[i], all, Sel)
       THEN RmDropAdds(DelAt(add, i), i - 1, removed \o <<add[i]>>, all, Sel)
       ELSE RmDropAdds(add, i - 1, removed, all, Sel)

RECURSIVE RmLoop(_, _, _, _, _, _, _, _, _)
RmLoop(f, it, j, removed, st, en, n, all, Sel) ==
  IF j > Len(it) THEN f
  ELSE LET idx == it[j][1] cur == it[j][2] p == f[idx] IN
    IF idx < st THEN RmLoop(f, it, j + 1, removed, st, en, n, all, Sel)
    ELSE IF idx > en THEN f
    ELSE IF idx = st THEN
      LET r == RmAtStart(cur, 1, p, removed, all, Sel) IN
      RmLoop(SetPt(f, idx, r.p), it, j + 1, r.removed, st, en, n, all, Sel)
    ELSE
      LET d == RmDropRems(p.rem, Len(p.rem), removed) IN
      IF idx = en THEN
        IF en # n /\ d.removed # << >> THEN
          LET continuing == SelectSeq(cur, LAMBDA s : FindRef(s, p.add) = 0)
              hits == {i \in DOMAIN continuing : FindRef(continuing[i], d.removed) # 0}
              first == IF hits = {} THEN Len(continuing) + 1 ELSE CHOOSE i \in hits : \A q \in hits : i <= q
              restart == SubSeq(continuing, first, Len(continuing))
              extraRem == SelectSeq(restart, LAMBDA s : FindRef(s, d.removed) = 0)
          IN RmLoop(SetPt(f, idx, Pt(restart \o p.add, d.rem \o extraRem)), it, j + 1, d.removed, st, en, n, all, Sel)
        ELSE RmLoop(SetPt(f, idx, Pt(p.add, d.rem)), it, j + 1, d.removed, st, en, n, all, Sel)
      ELSE
        LET a == RmDropAdds(p.add, Len(p.add), d.removed, all, Sel) IN
        RmLoop(SetPt(f, idx, Pt(a.add, d.rem)), it, j + 1, a.removed, st, en, n, all, Sel)

CPRemove(t, f, all, Sel, start, end) ==
  LET n == Len(t) st == SliceIdx(start, n, 0) en == SliceIdx(end, n, n) IN
  IF (~all /\ Sel = {}) \/ st >= n \/ en <= st THEN f
  ELSE LET f1 == WithKey(WithKey(f, st), en)
       IN DropEmpty(RmLoop(f1, Iter(f1), 1, << >>, st, en, n, all, Sel))

---------------------------------------------------------------------------
\* __getitem__ with a slice already normalised to st..en (0 <= st, en <= n); returns <<text, table>>
RECURSIVE GiLoop(_, _, _, _, _, _, _, _)
GiLoop(f, it, j, st, en, newf, init, prev) ==     \* prev = <<>> stands for None or []
  IF j > Len(it) THEN [newf |-> newf, init |-> init, prev |-> prev]
  ELSE LET idx == it[j][1] cur == it[j][2] p == f[idx] IN
    IF idx > en THEN [newf |-> newf, init |-> init, prev |-> prev]
    ELSE IF idx = en THEN
      [newf |-> IF p.rem # << >> THEN SetPt(newf, idx - st, Pt(<< >>, p.rem)) ELSE newf, init |-> init, prev |-> prev]
    ELSE IF idx = st THEN
      GiLoop(f, it, j + 1, st, en, IF cur # << >> THEN SetPt(newf, 0, Pt(cur, << >>)) ELSE newf, TRUE, cur)
    ELSE IF idx > st THEN
      LET nf1 == IF ~init /\ prev # << >> THEN SetPt(newf, 0, Pt(prev, << >>)) ELSE newf
      IN GiLoop(f, it, j + 1, st, en, SetPt(nf1, idx - st, Pt(p.add, p.rem)), TRUE, cur)
    ELSE GiLoop(f, it, j + 1, st, en, newf, init, cur)

CPGetItem(t, f, st, en0) ==
  LET en == IF en0 < st THEN st ELSE en0
      nt == SubSeq(t, st + 1, en)
  IN IF nt = << >> THEN <<nt, EmptyTab>>
     ELSE LET r == GiLoop(f, Iter(f), 1, st, en, EmptyTab, FALSE, << >>)
              nf1 == IF ~r.init /\ r.prev # << >> THEN SetPt(r.newf, 0, Pt(r.prev, << >>)) ELSE r.newf
              nl == Len(nt)
          IN IF r.prev = << >> THEN <<nt, nf1>>
             ELSE LET nf2 == WithKey(nf1, nl)
                      toRem == SelectSeq(r.prev, LAMBDA s : FindRef(s, nf2[nl].rem) = 0)
                  IN <<nt, SetPt(nf2, nl, Pt(nf2[nl].add, nf2[nl].rem \o toRem))>>

---------------------------------------------------------------------------
\* __iadd__(value): returns the new <<text, table>> of self; value's table g is only read
ValueEq(a, b) == Len(a) = Len(b) /\ \A k \in DOMAIN a : a[k][2] = b[k][2]

\* replace, in rem, the references found in `find` by the corresponding one of `repl` (reversed(finds) order)
RECURSIVE IaFix(_, _, _, _)
IaFix(rem, find, repl, i) ==          \* i runs over find from the last index down
  IF i < 1 THEN [rem |-> rem, find |-> find, repl |-> repl]
  ELSE LET hits == {k \in DOMAIN rem : rem[k][1] = find[i][1]} IN
       IF hits = {} THEN IaFix(rem, find, repl, i - 1)
       ELSE LET k == CHOOSE x \in hits : \A y \in hits : y <= x
            IN IaFix([rem EXCEPT ![k] = repl[i]], DelAt(find, i), DelAt(repl, i), i - 1)

RECURSIVE IaLoop(_, _, _, _, _, _, _)
IaLoop(f, g, ks, j, shift, find, repl) ==
  IF j > Len(ks) THEN f
  ELSE LET key == ks[j] + shift s == g[ks[j]] IN
    IF key \in DOMAIN f THEN
      LET k == Len(s.add) IN
      IF key = shift /\ s.add # << >> /\ Len(f[key].rem) >= k /\ ValueEq(SubSeq(f[key].rem, 1, k), s.add)
         /\ LET ending == SubSeq(f[key].rem, 1, k)        \* merge only when my precedence among them is the incoming one
                active == SelectSeq(SettingsAt(shift + 1, f, shift - 1), LAMBDA x : \E q \in DOMAIN ending : ending[q][1] = x[1])
            IN Len(active) = k /\ \A q \in 1..k : active[q][1] = ending[q][1]
      THEN
        LET nrem == SubSeq(f[key].rem, k + 1, Len(f[key].rem))
            nf == s.add
            nr == SubSeq(f[key].rem, 1, k)
        IN IF f[key].add = << >> /\ nrem = << >> /\ s.rem = << >>
           THEN IaLoop(DropKey(f, key), g, ks, j + 1, shift, nf, nr)
           ELSE IaLoop(SetPt(f, key, Pt(f[key].add, nrem \o s.rem)), g, ks, j + 1, shift, nf, nr)
      ELSE IaLoop(SetPt(f, key, Pt(f[key].add \o s.add, f[key].rem \o s.rem)), g, ks, j + 1, shift, find, repl)
    ELSE
      LET x == IaFix(s.rem, find, repl, Len(find)) IN
      IaLoop(SetPt(f, key, Pt(s.add, x.rem)), g, ks, j + 1, shift, x.find, x.repl)

\* canonical instance numbering (first occurrence, keys ascending, add before rem): tables equal up to renaming of objects
RECURSIVE CanonWalk(_, _, _, _)
CanonWalk(f, ks, j, seen) ==       \* seen: sequence of instance ids in order of first occurrence
  IF j > Len(ks) THEN seen
  ELSE LET p == f[ks[j]]
           ids == [i \in DOMAIN p.add |-> p.add[i][1]] \o [i \in DOMAIN p.rem |-> p.rem[i][1]]
           RECURSIVE AddNew(_, _)
           AddNew(sn, i) == IF i > Len(ids) THEN sn
                            ELSE AddNew(IF \E q \in DOMAIN sn : sn[q] = ids[i] THEN sn ELSE sn \o <<ids[i]>>, i + 1)
       IN CanonWalk(f, ks, j + 1, AddNew(seen, 1))
CanonTab(f) ==
  LET order == CanonWalk(f, SortedSeq(DOMAIN f), 1, << >>)
      CanonNo(x) == CHOOSE q \in DOMAIN order : order[q] = x
  IN Strict([k \in DOMAIN f |-> Pt(StrictSeq([i \in DOMAIN f[k].add |-> <<CanonNo(f[k].add[i][1]), f[k].add[i][2]>>]),
                                   StrictSeq([i \in DOMAIN f[k].rem |-> <<CanonNo(f[k].rem[i][1]), f[k].rem[i][2]>>]))])
SameTab(f, g) == CanonTab(f) = CanonTab(g)

\* the incoming settings objects are cloned (fresh identities above mine, numbered compactly in order of first
\* occurrence so that identities stay small however many concatenations follow one another), so that objects shared
\* between the operands (a copy of self, or self) are never mixed up when the seams are merged
MaxInst(f) == LET S == UNION {{f[k].add[i][1] : i \in DOMAIN f[k].add} \cup {f[k].rem[i][1] : i \in DOMAIN f[k].rem} : k \in DOMAIN f}
              IN IF S = {} THEN 0 ELSE CHOOSE x \in S : \A y \in S : y <= x
RenameTab(g, base) ==
  LET order == CanonWalk(g, SortedSeq(DOMAIN g), 1, << >>)
      No(x) == base + (CHOOSE q \in DOMAIN order : order[q] = x)
  IN Strict([k \in DOMAIN g |-> Pt(StrictSeq([i \in DOMAIN g[k].add |-> <<No(g[k].add[i][1]), g[k].add[i][2]>>]),
                                   StrictSeq([i \in DOMAIN g[k].rem |-> <<No(g[k].rem[i][1]), g[k].rem[i][2]>>]))])
CPIAdd(t, f, u, g) ==
  LET g2 == RenameTab(g, MaxInst(f))
  IN << t \o u, IaLoop(f, g2, SortedSeq(DOMAIN g2), 1, Len(t), << >>, << >>) >>


---------------------------------------------------------------------------
\* _shift_settings_idx(num, keep_origin)
Shift(f, num, keep) == Strict([k \in {(IF keep /\ x = 0 THEN x ELSE x + num) : x \in DOMAIN f} |->
                                 IF keep /\ k = 0 /\ 0 \in DOMAIN f THEN f[0] ELSE f[k - num]])
MoveKey(f, a, b) == IF a \in DOMAIN f THEN SetPt(DropKey(f, a), b, f[a]) ELSE f

CPPad(t, f, m, width, fill, ext) ==
  LET n == Len(t) num == width - n IN
  IF num <= 0 THEN <<t, f>>
  ELSE IF m = "ljust" THEN << t \o Rep(fill, num), IF ext THEN MoveKey(f, n, n + num) ELSE f >>
  ELSE IF m = "rjust" THEN << Rep(fill, num) \o t, Shift(f, num, ext) >>
  ELSE LET l == num \div 2 r == num - l
           nt == Rep(fill, l) \o t \o Rep(fill, r)
           f1 == Shift(f, l, ext)
       IN << nt, IF ext THEN MoveKey(f1, n + l, Len(nt)) ELSE f1 >>

---------------------------------------------------------------------------
(***************************************************************************)
(* to_str(None, optimize, reset_start, reset_end): the walk over the table *)
(* and the optimiser, transcribed.  The effect dictionary is an ORDERED    *)
(* sequence of <<group, tid>> (Python dict semantics: assigning to an      *)
(* existing key keeps its position).  Code 10 (primary font) is the clear   *)
(* code of the font group, like 22/23/24/39/49 of theirs (the library      *)
(* filed it as an "apply" code until its commit "fix: SGR 10 ...").        *)
(***************************************************************************)
LibGroupOf(tid) == GroupOf(ParamList(TextTable[tid]).ps[1])
LibIsClear(tid) == ParamList(TextTable[tid]).ps[1] \in ClearCodes
LibIsReset(tid) == ParamList(TextTable[tid]).ps[1] = 0

DictHas(d, g) == \E k \in DOMAIN d : d[k][1] = g
DictGet(d, g) == d[CHOOSE k \in DOMAIN d : d[k][1] = g][2]
DictSet(d, g, t) == IF DictHas(d, g) THEN StrictSeq([k \in DOMAIN d |-> IF d[k][1] = g THEN <<g, t>> ELSE d[k]]) ELSE d \o << <<g, t>> >>
DictDel(d, g) == SelectSeq(d, LAMBDA e : e[1] # g)

\* settings_to_dict(settings) for parsable settings
RECURSIVE ToDict(_, _, _)
ToDict(cur, i, d) ==
  IF i > Len(cur) THEN d
  ELSE LET t == cur[i][2] IN
       IF LibIsReset(t) THEN ToDict(cur, i + 1, << >>)
       ELSE IF LibIsClear(t) THEN ToDict(cur, i + 1, DictDel(d, LibGroupOf(t)))
       ELSE ToDict(cur, i + 1, DictSet(d, LibGroupOf(t), t))

RECURSIVE JoinSeqs(_, _)
JoinSeqs(parts, i) == IF i > Len(parts) THEN << >>
                      ELSE parts[i] \o (IF i < Len(parts) THEN <<SEMI>> ELSE << >>) \o JoinSeqs(parts, i + 1)
SgrSeq(codes) == <<ESC, LBRK>> \o codes \o <<LOWM>>
TabParsable(f) == \A k \in DOMAIN f : \A i \in DOMAIN f[k].add : Sem[f[k].add[i][2]].cls = "single"

RECURSIVE RenderLoop(_, _, _, _, _, _, _, _, _, _)
RenderLoop(t, f, it, j, fl, optimize, out, lastIdx, dict, st) ==      \* st = <<first_iter, settings_exist>>
  IF j > Len(it) \/ it[j][1] >= Len(t) THEN [out |-> out, lastIdx |-> lastIdx, st |-> st]
  ELSE
    LET idx == it[j][1] cur == it[j][2] p == f[idx]
        out1 == (IF st[1] /\ idx > 0 /\ fl[2] = 1 THEN out \o SgrSeq(<< >>) ELSE out) \o SubSeq(t, lastIdx + 1, idx)
        texts == [k \in DOMAIN cur |-> TextTable[cur[k][2]]]
        toApply == IF p.rem # << >> /\ texts # << >> THEN << <<48>> >> \o texts ELSE texts
        codes0 == JoinSeqs(toApply, 1)
        newDict == IF optimize THEN ToDict(cur, 1, << >>) ELSE dict
        cleared == IF optimize THEN SelectSeq(dict, LAMBDA e : ~DictHas(newDict, e[1])) ELSE << >>
        changed == IF optimize THEN SelectSeq(newDict, LAMBDA e : ~DictHas(dict, e[1]) \/ TextTable[DictGet(dict, e[1])] # TextTable[e[2]])
                   ELSE << >>
        optParts == [k \in DOMAIN cleared |-> Dec(ClearCodeOf(cleared[k][1]))] \o [k \in DOMAIN changed |-> TextTable[changed[k][2]]]
        optCodes == JoinSeqs(optParts, 1)
        apply0 == ~(optimize /\ optCodes = << >>)
        codes1 == IF optimize /\ optCodes # << >> /\ Len(optCodes) < Len(codes0) THEN optCodes ELSE codes0
        atZero == idx = 0 /\ fl[2] = 1
        codes2 == IF atZero THEN <<48, SEMI>> \o codes1 ELSE codes1
        out2 == IF apply0 \/ atZero THEN out1 \o SgrSeq(codes2) ELSE out1
    IN RenderLoop(t, f, it, j + 1, fl, optimize, out2, idx, newDict, <<FALSE, cur # << >> >>)

CPRender(t, f, fl) ==
  IF f = EmptyTab /\ fl[2] = 0 THEN t
  ELSE LET optimize == fl[1] = 1 /\ TabParsable(f)
           r == RenderLoop(t, f, Iter(f), 1, fl, optimize, << >>, 0, << >>, <<TRUE, FALSE>>)
           out1 == IF r.st[1] /\ fl[2] = 1 THEN r.out \o SgrSeq(<< >>) ELSE r.out
           out2 == out1 \o SubSeq(t, r.lastIdx + 1, Len(t))
       IN IF r.st[2] /\ fl[3] = 1 THEN out2 \o SgrSeq(<< >>) ELSE out2

---------------------------------------------------------------------------
(***************************************************************************)
(* replace(old, new, count): the find / slice / concatenate loop.          *)
(* newKind = "P": plain str replacement -> AnsiString(new, settings of the *)
(* first character of the match) (fresh objects); otherwise the            *)
(* replacement value <<newT, newF>> itself (AnsiStr: a copy).              *)
(***************************************************************************)
FreshCopies(L, base) == StrictSeq([i \in DOMAIN L |-> <<base + i, L[i][2]>>])

\* The loop of replace() is written as a FOLD over a step counter (FoldLeft is evaluated in Java, flat) rather than as
\* a recursive operator: TLC evaluates a callee in the caller's context extended by the parameters, so along a
\* recursion that rebuilds text and table at every level the evaluation time roughly doubled per match (a replace()
\* of 26 matches took minutes).  A step on a finished state returns it unchanged.
\* loop state: <<text, table, matches left (-1 = all), index of the next match (-1 = none), next fresh identity>>
ReplStep(old, newKind, newT, newF, st) ==
  LET t == st[1] f == st[2] left == st[3] idx == st[4] base == st[5] IN
  IF left = 0 \/ idx < 0 THEN st
  ELSE
    LET n == Len(t)
        cur == SettingsAt(n, f, idx)
        rep == IF newKind = "P"
               THEN << newT, CPApply(newT, EmptyTab, FreshCopies(cur, base), <<0>>, << >>, TRUE) >>
               ELSE << newT, newF >>
        head == CPGetItem(t, f, 0, idx)
        tail == CPGetItem(t, f, MinOf(idx + Len(old), n), n)
        a == CPIAdd(head[1], head[2], rep[1], rep[2])
        b == CPIAdd(a[1], a[2], tail[1], tail[2])
        from == idx + Len(newT) + (IF old = << >> THEN 1 ELSE 0)
        nidx == IF from > Len(b[1]) THEN -1 ELSE Find(b[1], old, from, Len(b[1]))
    IN <<b[1], b[2], IF left > 0 THEN left - 1 ELSE left, nidx, MaxInst(b[2]) + 1>>

CPReplace(t, f, old, newKind, newT, newF, count) ==
  LET Step(st, i) == ReplStep(old, newKind, newT, newF, st)
      fin == SX!FoldLeft(Step, <<t, f, count, Find(t, old, 0, Len(t)), MaxInst(f) + MaxInst(newF) + 1>>, [i \in 1..(Len(t) + 1) |-> i])
  IN <<fin[1], fin[2]>>

---------------------------------------------------------------------------
(***************************************************************************)
(* set_ansi_str(s): ParsedAnsiControlSequenceString(s, False, 'm'), then   *)
(* per sequence parse_graphic_sequence / settings_to_dict and the          *)
(* remove/apply bookkeeping - transcribed for sequence bodies made of      *)
(* digits and ';' (items are <<"i", n>> or <<"s">> for an empty field).    *)
(***************************************************************************)
BodyItems(body) ==
  LET parts == SplitOn(body, SEMI) IN
  [k \in DOMAIN parts |-> IF parts[k] = << >> THEN <<"i", 0>>       \* an empty parameter is 0
                          ELSE IF AllDigits(parts[k]) THEN <<"i", Num(parts[k])>> ELSE <<"s", 0>>]
StrictBody(body) == \A k \in DOMAIN body : IsDigit(body[k]) \/ body[k] = SEMI

\* does items[idx..] start with <<c, mode>> ?
StartsFn(items, idx, c, mode) ==
  idx + 1 <= Len(items) /\ items[idx] = <<"i", c>> /\ items[idx + 1] = <<"i", mode>>

\* parse_graphic_sequence(body, add_erroneous=False) -> sequence of parameter lists (one per returned setting)
RECURSIVE PgsLoop(_, _, _, _)
PgsLoop(items, idx, curSet, leftIn) ==
  IF idx > Len(items) THEN << >>
  ELSE IF items[idx][1] # "i" THEN PgsLoop(items, idx + 1, curSet, leftIn)
  ELSE
    LET v == items[idx][2]
        starting == curSet = << >>
        fnLen == IF StartsFn(items, idx, v, 5) /\ IsExt(v) THEN 3
                 ELSE IF StartsFn(items, idx, v, 2) /\ IsExt(v) THEN 5 ELSE 0
        skip == starting /\ IsExt(v) /\ fnLen = 0
        left0 == IF starting THEN (IF fnLen > 0 THEN fnLen ELSE 1) ELSE leftIn
        set1 == curSet \o <<v>>
        left1 == left0 - 1
    IN IF skip THEN PgsLoop(items, idx + 1, curSet, leftIn)
       ELSE IF left1 <= 0
            THEN (IF SingleGroup(set1) \/ set1 = <<0>> THEN << set1 >> ELSE << >>) \o PgsLoop(items, idx + 1, << >>, 0)
            ELSE PgsLoop(items, idx + 1, set1, left1)
CPPgs(body) == IF body = << >> THEN << <<0>> >> ELSE PgsLoop(BodyItems(body), 1, << >>, 0)

\* the effect dictionary: ordered << <<group, params>> >>
PDictHas(d, g) == \E k \in DOMAIN d : d[k][1] = g
PDictGet(d, g) == d[CHOOSE k \in DOMAIN d : d[k][1] = g][2]
PDictSet(d, g, ps) == IF PDictHas(d, g) THEN StrictSeq([k \in DOMAIN d |-> IF d[k][1] = g THEN <<g, ps>> ELSE d[k]]) ELSE d \o << <<g, ps>> >>
LibGroupOfPs(ps) == IF ps[1] = 0 THEN "reset" ELSE GroupOf(ps[1])
RECURSIVE PToDict(_, _, _)
PToDict(sets, i, d) ==
  IF i > Len(sets) THEN d
  ELSE LET ps == sets[i] IN
       IF ps[1] = 0 THEN PToDict(sets, i + 1, << >>)
       ELSE IF ps[1] \in ClearCodes THEN PToDict(sets, i + 1, SelectSeq(d, LAMBDA e : e[1] # GroupOf(ps[1])))
       ELSE PToDict(sets, i + 1, PDictSet(d, GroupOf(ps[1]), ps))

TidOfPs(ps) == LET text == JoinDec(ps, 1) IN
               IF \E i \in TextIds : TextTable[i] = text THEN CHOOSE i \in TextIds : TextTable[i] = text ELSE 0

\* insertion sort of dictionary entries by their position in the parsed sequence (stable; absent = -1)
SeqOrderOf(sets, g) == LET hits == {i \in DOMAIN sets : LibGroupOfPs(sets[i]) = g} IN
                       IF hits = {} THEN -1 ELSE (CHOOSE i \in hits : \A j \in hits : j <= i) - 1
RECURSIVE StableSortBy(_, _)
StableSortBy(d, sets) ==
  IF d = << >> THEN << >>
  ELSE LET keys == {SeqOrderOf(sets, d[k][1]) : k \in DOMAIN d}
           mn == CHOOSE x \in keys : \A y \in keys : x <= y
           first == CHOOSE k \in DOMAIN d : SeqOrderOf(sets, d[k][1]) = mn /\ \A j \in 1..(k-1) : SeqOrderOf(sets, d[j][1]) # mn
       IN <<d[first]>> \o StableSortBy(SubSeq(d, 1, first - 1) \o SubSeq(d, first + 1, Len(d)), sets)

RECURSIVE SasLoop(_, _, _, _, _, _)
SasLoop(t, f, seqs, j, cur, base) ==       \* seqs: << <<pos, body, term>> ... >> in order
  IF j > Len(seqs) THEN f
  ELSE LET key == seqs[j][1] IN
    IF key >= Len(t) THEN SasLoop(t, f, seqs, j + 1, cur, base)
    ELSE
      LET sets == CPPgs(seqs[j][2])
          new == PToDict(sets, 1, cur)
          ordered == StableSortBy(new, sets)
          changed == SelectSeq(ordered, LAMBDA e : ~PDictHas(cur, e[1]) \/ PDictGet(cur, e[1]) # e[2])
          replaced == SelectSeq(ordered, LAMBDA e : PDictHas(cur, e[1]) /\ PDictGet(cur, e[1]) # e[2])
          gone == SelectSeq(cur, LAMBDA e : ~PDictHas(new, e[1]))
          remTids == {TidOfPs(PDictGet(cur, replaced[k][1])) : k \in DOMAIN replaced} \cup {TidOfPs(gone[k][2]) : k \in DOMAIN gone}
          f1 == IF remTids = {} THEN f ELSE CPRemove(t, f, FALSE, remTids, <<key>>, << >>)
          fresh == StrictSeq([k \in DOMAIN changed |-> <<base + k, TidOfPs(changed[k][2])>>])
          f2 == IF changed = << >> THEN f1 ELSE CPApply(t, f1, fresh, <<key>>, << >>, TRUE)
      IN SasLoop(t, f2, seqs, j + 1, new, base + Len(changed) + 1)

CPSetAnsiStrFrom(input, base) ==
  LET p == ParseCS(input, FALSE, << <<LOWM>> >>) IN
  << p.text, SasLoop(p.text, EmptyTab, p.seqs, 1, << >>, base) >>
CPSetAnsiStr(input) == CPSetAnsiStrFrom(input, 0)
InputStrict(input) ==
  LET p == ParseCS(input, FALSE, << <<LOWM>> >>) IN \A j \in DOMAIN p.seqs : StrictBody(p.seqs[j][2])

---------------------------------------------------------------------------
\* assign_str(s): a longer text moves the end marker, a shorter one clips
CPAssign(t, f, nt) ==
  IF Len(nt) > Len(t) THEN << nt, MoveKey(f, Len(t), Len(nt)) >>
  ELSE IF Len(nt) < Len(t) THEN << nt, CPGetItem(t, f, 0, Len(nt))[2] >>
  ELSE << nt, f >>

---------------------------------------------------------------------------
\* find_settings(settings, start, end, reverse): the index-table algorithm; S = text ids searched for (by value).
\* Result << found_start, found_end >> as optional integers (<< >> = None).
CPFindSettings(t, f, S, start, end, reverse) ==
  LET n == Len(t) st == SliceIdx(start, n, 0) en == SliceIdx(end, n, n) IN
  IF en < st THEN << << >>, << >> >>
  ELSE IF S = << >> THEN << <<st>>, <<en>> >>
  ELSE
    LET it == Iter(f)
        inRange == SelectSeq(it, LAMBDA x : x[1] >= st /\ x[1] <= en)      \* ascending by index
        HasAll(cur) == \A k \in DOMAIN S : \E q \in DOMAIN cur : cur[q][2] = S[k]
        keys == {inRange[j][1] : j \in DOMAIN inRange}
        CurAt(idx) == inRange[CHOOSE j \in DOMAIN inRange : inRange[j][1] = idx][2]
        direct == st \notin keys /\ HasAll(SettingsAt(n, f, st))
        matching == {k \in keys : HasAll(CurAt(k))}
        fs == IF direct THEN <<st>>
              ELSE IF matching = {} THEN << >>
              ELSE IF reverse THEN <<CHOOSE k \in matching : \A q \in matching : q <= k>>
              ELSE <<CHOOSE k \in matching : \A q \in matching : k <= q>>
        later == IF fs = << >> THEN {} ELSE {k \in keys : k > fs[1] /\ ~HasAll(CurAt(k))}
        fe == IF later = {} THEN << >> ELSE <<CHOOSE k \in later : \A q \in later : k <= q>>
    IN <<fs, fe>>

---------------------------------------------------------------------------
(***************************************************************************)
(* DRIFT detection on recorded events: the transcribed operator applied to *)
(* the LOGGED pre-table must give the LOGGED post-table.  v.f is the raw   *)
(* table as the recorder read it: << <<key, add, rem>>, ... >>.            *)
(* A failing drift.* clause means the code no longer follows this          *)
(* transcription (so the exhaustive results of CPSystem no longer transfer *)
(* to it); it is reported as a note, never as a property violation.        *)
(***************************************************************************)
TabOf(fl) == Strict([k \in {fl[i][1] : i \in DOMAIN fl} |->
                       LET i == CHOOSE j \in DOMAIN fl : fl[j][1] = k IN Pt(fl[i][2], fl[i][3])])
AllInsts(f) == UNION {{f[k].add[i][1] : i \in DOMAIN f[k].add} \cup {f[k].rem[i][1] : i \in DOMAIN f[k].rem} : k \in DOMAIN f}
HasTab(v) == v.k \in {"S", "A"}

\* an operand of += / join as the code sees it: AnsiString/AnsiStr bring their table, a plain str is parsed
OperandOk(u) == HasTab(u) \/ (u.k = "P" /\ (NoEsc(u.t) \/ InputStrict(u.t)))
OperandTab(u) == IF HasTab(u) THEN <<u.t, TabOf(u.f)>>
                 ELSE IF NoEsc(u.t) THEN <<u.t, EmptyTab>> ELSE CPSetAnsiStr(u.t)

\* AnsiString.join: copy (or parse) the first operand, then += each of the others (operands as <<text, table>> pairs)
RECURSIVE JoinFoldT(_, _, _)
JoinFoldT(ps, k, acc) ==
  IF k > Len(ps) THEN acc ELSE JoinFoldT(ps, k + 1, CPIAdd(acc[1], acc[2], ps[k][1], ps[k][2]))
CPJoinT(ps) == IF ps = << >> THEN <<(<< >>), EmptyTab>> ELSE JoinFoldT(ps, 2, ps[1])
CPJoin(ops) == CPJoinT(StrictSeq([k \in DOMAIN ops |-> OperandTab(ops[k])]))

\* _strip(chars, inplace, do_lstrip, do_rstrip): count from the left; from the right only when something is left over
\* (a negative end index, None when nothing is stripped there); then clip(lcount, rcount) = self[lcount:rcount]
CPStrip(t, f, chars, doL, doR) ==
  LET n == Len(t)
      lcount == IF doL THEN LCount(t, chars, 0) ELSE 0
      rc == IF doR /\ lcount < n THEN RKeep(t, chars, n) - n ELSE 0
      rOpt == IF rc = 0 THEN << >> ELSE <<rc>>
  IN CPGetItem(t, f, SliceIdx(<<lcount>>, n, 0), SliceIdx(rOpt, n, n))

\* _split / splitlines: each piece of str.split is located again with str.find from a running index (plus the
\* separator length when there is a separator) and cut with __getitem__
RECURSIVE LocLoop(_, _, _, _, _)
LocLoop(text, pieces, k, idx, skip) ==
  IF k > Len(pieces) THEN << >>
  ELSE LET at == PyFind(text, pieces[k], <<idx>>, << >>)
       IN << <<at, at + Len(pieces[k])>> >> \o LocLoop(text, pieces, k + 1, at + Len(pieces[k]) + skip, skip)
CPCut(text, f, lo, hi) == CPGetItem(text, f, SliceIdx(<<lo>>, Len(text), 0), SliceIdx(<<hi>>, Len(text), Len(text)))
PiecesFollow(ps, text, f, ranges) ==
  Len(ps) = Len(ranges) /\
  \A k \in DOMAIN ranges : LET g == CPCut(text, f, ranges[k][1], ranges[k][2]) IN ps[k].t = g[1] /\ TabOf(ps[k].f) = g[2]

DriftClauses(e, pre, post) ==
  IF e.out = "ok" /\ e.op = "new" /\ e.a.src = 0 /\ e.a.S = << >> /\ ~NoEsc(e.a.text) /\ InputStrict(e.a.text) THEN
     LET w == post[e.res[1]] g == CPSetAnsiStr(e.a.text) IN
     Cl("drift.parse", TRUE, w.t = g[1] /\ SameTab(TabOf(w.f), g[2]))
  ELSE IF e.out = "ok" /\ e.op = "join" /\ HasResult(e) /\ e.a.items # << >>
          /\ \A k \in DOMAIN e.a.items : OperandOk(pre[e.a.items[k]]) THEN
     LET w == ResultOf(e, post) ops == [k \in DOMAIN e.a.items |-> pre[e.a.items[k]]] g == CPJoin(ops) IN
     Cl("drift.join", \E k \in DOMAIN ops : ops[k].f # << >>, w.t = g[1] /\ SameTab(TabOf(w.f), g[2]))
  ELSE IF e.out # "ok" \/ e.r = 0 \/ ~HasTab(pre[e.r]) THEN None
  ELSE LET v == pre[e.r] n == Len(v.t) f == TabOf(v.f) IN
  CASE e.op = "apply" /\ HasResult(e) ->
         LET w == ResultOf(e, post) g == TabOf(w.f)
             st == SliceIdx(e.a.start, n, 0)
             old == AllInsts(f)
             new == IF st \in DOMAIN g THEN SelectSeq(g[st].add, LAMBDA x : x[1] \notin old) ELSE << >>
         IN Cl("drift.apply", new # << >>, g = CPApply(v.t, f, new, e.a.start, e.a.end, e.a.top = 1))
    [] e.op = "remove" /\ HasResult(e) ->
         LET w == ResultOf(e, post) IN
         Cl("drift.remove", f # EmptyTab, TabOf(w.f) = CPRemove(v.t, f, e.a.all = 1, Range(e.a.Sel), e.a.start, e.a.end))
    [] e.op \in {"slice", "clip"} /\ HasResult(e) ->
         LET w == ResultOf(e, post)
             g == CPGetItem(v.t, f, SliceIdx(e.a.start, n, 0), SliceIdx(e.a.stop, n, n))
         IN Cl("drift.getitem", f # EmptyTab, w.t = g[1] /\ TabOf(w.f) = g[2])
    [] e.op = "index" /\ HasResult(e) /\ -n <= e.a.i /\ e.a.i < n ->
         LET w == ResultOf(e, post)
             j == IF e.a.i < 0 THEN n + e.a.i ELSE e.a.i
             g == CPGetItem(v.t, f, j, j + 1)
         IN Cl("drift.getitem", f # EmptyTab, w.t = g[1] /\ TabOf(w.f) = g[2])
    [] e.op \in {"add", "iadd"} /\ HasResult(e) /\ OperandOk(pre[e.a.other]) ->
         LET w == ResultOf(e, post) u == OperandTab(pre[e.a.other])
             g == CPIAdd(v.t, f, u[1], u[2])
         IN Cl("drift.iadd", f # EmptyTab \/ u[2] # EmptyTab, w.t = g[1] /\ SameTab(TabOf(w.f), g[2]))
    [] e.op \in {"split", "splitlines"} /\ e.res # << >> /\ PyOk(e) ->
         LET skip == IF e.op = "split" /\ e.a.sep # << >> THEN Len(e.a.sep[1]) ELSE 0 IN
         Cl("drift.split", f # EmptyTab, PiecesFollow(Pieces(e, post), v.t, f, LocLoop(v.t, PyText(e), 1, 0, skip)))
    [] e.op = "partition" /\ Len(e.res) = 3 /\ e.a.sep # << >> ->
         LET i == IF e.a.m = "partition" THEN Find(v.t, e.a.sep, 0, n) ELSE RFind(v.t, e.a.sep, 0, n)
             ps == Pieces(e, post)
         IN Cl("drift.partition", f # EmptyTab,
               IF i >= 0 THEN PiecesFollow(ps, v.t, f, << <<0, i>>, <<i, i + Len(e.a.sep)>>, <<i + Len(e.a.sep), n>> >>)
               ELSE ps[1].t = v.t /\ TabOf(ps[1].f) = f /\ ps[2].f = << >> /\ ps[3].f = << >>)
    [] e.op = "iter" /\ Len(e.res) = n ->
         Cl("drift.iter", f # EmptyTab, PiecesFollow(Pieces(e, post), v.t, f, [k \in 1..n |-> <<k - 1, k>>]))
    [] e.op = "pad" /\ HasResult(e) /\ Len(e.a.fill) = 1 /\ e.a.m \in {"ljust", "rjust", "center"} ->
         LET w == ResultOf(e, post)
             g == CPPad(v.t, f, e.a.m, e.a.width, e.a.fill[1], e.a.extend = 1)
         IN Cl("drift.pad", f # EmptyTab, w.t = g[1] /\ TabOf(w.f) = g[2])
    \* (setting texts on which Python's int() is more liberal than "digits" - blanks, newlines, signs - are classified
    \* differently by the code's parsable flag and by the transcription: outside the comparison, as in C15)
    [] e.op = "render" /\ e.a.spec = << >> /\ v.k = "S" /\ e.a.drift = 1
       /\ (\A i \in DOMAIN v.s : \A k \in DOMAIN v.s[i] : ParsableInClaim(TextTable[v.s[i][k][2]])) ->
         Cl("drift.render", f # EmptyTab, e.o.out = CPRender(v.t, f, e.a.flags))
    [] e.op \in {"strip", "rmfix"} /\ HasResult(e) ->
         LET w == ResultOf(e, post)
             segs == IF e.op = "strip" THEN StripSegs(e.r, v.t, e.a.m, e.a.chars)
                     ELSE IF e.a.m = "removeprefix"
                          THEN (IF StartsWith(v.t, e.a.s) THEN << <<"reg", e.r, Len(e.a.s), n>> >> ELSE << <<"reg", e.r, 0, n>> >>)
                          ELSE (IF EndsWith(v.t, e.a.s) /\ e.a.s # << >> THEN << <<"reg", e.r, 0, n - Len(e.a.s)>> >> ELSE << <<"reg", e.r, 0, n>> >>)
             g == CPGetItem(v.t, f, segs[1][3], segs[1][4])
             whole == segs[1][3] = 0 /\ segs[1][4] = n
             g2 == IF e.op = "strip"
                   THEN CPStrip(v.t, f, IF e.a.chars = << >> THEN DefaultStripSet ELSE e.a.chars[1],
                                e.a.m \in {"strip", "lstrip"}, e.a.m \in {"strip", "rstrip"})
                   ELSE g
         IN Cl("drift.strip", f # EmptyTab /\ ~whole, ~whole => (w.t = g[1] /\ SameTab(TabOf(w.f), g[2]) /\ g2 = g))
    [] e.op = "replace" /\ HasResult(e) /\ e.a.old # << >> /\ (pre[e.a.new].k # "P" \/ NoEsc(pre[e.a.new].t)) ->
         LET w == ResultOf(e, post) u == pre[e.a.new]
             g == CPReplace(v.t, f, e.a.old, u.k, u.t, IF HasTab(u) THEN TabOf(u.f) ELSE EmptyTab, e.a.count)
             matched == Find(v.t, e.a.old, 0, n) >= 0 /\ e.a.count # 0
         IN Cl("drift.replace", matched /\ (f # EmptyTab \/ u.f # << >>), matched => (w.t = g[1] /\ SameTab(TabOf(w.f), g[2])))
    [] e.op = "reparse" /\ e.a.opt = 1 /\ HasResult(e) /\ NoEsc(v.t) /\ InputStrict(v.q) ->
         LET w == ResultOf(e, post) g == CPSetAnsiStr(v.q) IN
         Cl("drift.parse", f # EmptyTab, w.t = g[1] /\ SameTab(TabOf(w.f), g[2]))
    [] e.op = "assign_str" /\ HasResult(e) ->
         LET w == ResultOf(e, post) g == CPAssign(v.t, f, e.a.text) IN
         Cl("drift.assign_str", f # EmptyTab, w.t = g[1] /\ SameTab(TabOf(w.f), g[2]))
    [] e.op = "find_settings" /\ e.o.shape = 1 ->
         Cl("drift.find_settings", f # EmptyTab,
            <<e.o.fs, e.o.fe>> = CPFindSettings(v.t, f, e.a.S, e.a.start, e.a.end, e.a.reverse = 1))
    [] e.op = "copy" /\ HasResult(e) ->
         Cl("drift.copy", f # EmptyTab, TabOf(ResultOf(e, post).f) = f)
    [] OTHER -> None
=============================================================================
