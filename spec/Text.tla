-------------------------------- MODULE Text --------------------------------
(***************************************************************************)
(* Python str semantics over code-point sequences, WITH OFFSETS, for the   *)
(* "simple" fragment (printable ASCII plus \t \n \v \f \r).  Offsets are   *)
(* 0-based and half-open, as in Python.  These definitions are audited     *)
(* against CPython on every recorded call (clauses "audit.*"), so that an  *)
(* error here cannot pass for an implementation error.                     *)
(***************************************************************************)
EXTENDS Integers, Sequences, FiniteSets

SimpleCp(c) == c \in 32..126 \/ c \in {9, 10, 11, 12, 13}
Simple(t)   == \A i \in DOMAIN t : SimpleCp(t[i])
IsWS(c)     == c \in {32, 9, 10, 11, 12, 13}
DefaultStripSet == <<32, 9, 10, 13, 11, 12>>          \* ' \t\n\r\v\f'

Sub0(t, lo, hi) == SubSeq(t, lo + 1, hi)              \* t[lo:hi], 0 <= lo <= hi <= Len(t)
MatchAt(t, sub, i) == i >= 0 /\ i + Len(sub) <= Len(t) /\ \A k \in 1..Len(sub) : t[i + k] = sub[k]
InSeq(c, s) == \E k \in DOMAIN s : s[k] = c
Rep(c, n) == [k \in 1..n |-> c]

\* Python slice-style normalisation of optional (start, end) for find/count/...
NormOpt(o, n, dflt) ==
  IF o = << >> THEN dflt
  ELSE LET x == o[1] IN IF x < 0 THEN (IF n + x < 0 THEN 0 ELSE n + x) ELSE (IF x > n THEN n ELSE x)

\* lowest i in [lo, hi - Len(sub)] with a match, else -1  (lo, hi already normalised)
Find(t, sub, lo, hi) ==
  LET c == {i \in lo..(hi - Len(sub)) : MatchAt(t, sub, i)} IN
  IF c = {} THEN -1 ELSE CHOOSE i \in c : \A j \in c : i <= j
RFind(t, sub, lo, hi) ==
  LET c == {i \in lo..(hi - Len(sub)) : MatchAt(t, sub, i)} IN
  IF c = {} THEN -1 ELSE CHOOSE i \in c : \A j \in c : i >= j

\* Python: find/index/count with start > len(t) never match, even the empty string
PyFind(t, sub, start, end) ==
  LET n == Len(t) IN
  IF start # << >> /\ start[1] > n THEN -1 ELSE Find(t, sub, NormOpt(start, n, 0), NormOpt(end, n, n))
PyRFind(t, sub, start, end) ==
  LET n == Len(t) IN
  IF start # << >> /\ start[1] > n THEN -1 ELSE RFind(t, sub, NormOpt(start, n, 0), NormOpt(end, n, n))

\* non-overlapping occurrences, left to right: their start offsets (sub non-empty)
RECURSIVE Occ(_, _, _, _, _)
Occ(t, sub, from, hi, left) ==
  IF left = 0 THEN << >>
  ELSE LET i == Find(t, sub, from, hi) IN
       IF i < 0 THEN << >> ELSE <<i>> \o Occ(t, sub, i + Len(sub), hi, left - 1)
\* maxn < 0 means unlimited
Occurrences(t, sub, maxn) == Occ(t, sub, 0, Len(t), IF maxn < 0 THEN Len(t) + 1 ELSE maxn)

PyCount(t, sub, start, end) ==
  LET n == Len(t) lo == NormOpt(start, n, 0) hi == NormOpt(end, n, n) IN
  IF start # << >> /\ start[1] > n THEN 0
  ELSE IF sub = << >> THEN (IF hi >= lo THEN hi - lo + 1 ELSE 0)
  ELSE Len(Occ(t, sub, lo, hi, n + 1))

---------------------------------------------------------------------------
\* split(sep, maxsplit) with a non-empty separator: piece offsets <<lo, hi>>
SplitSep(t, sep, maxsplit) ==
  LET occ == Occurrences(t, sep, maxsplit)
      k == Len(occ)
  IN [i \in 1..(k + 1) |->
        << IF i = 1 THEN 0 ELSE occ[i-1] + Len(sep), IF i = k + 1 THEN Len(t) ELSE occ[i] >>]

\* occurrences scanning from the right (non-overlapping), returned in increasing order
RECURSIVE ROcc(_, _, _, _)
ROcc(t, sub, hi, left) ==
  IF left = 0 THEN << >>
  ELSE LET i == RFind(t, sub, 0, hi) IN
       IF i < 0 THEN << >> ELSE ROcc(t, sub, i, left - 1) \o <<i>>
RSplitSep(t, sep, maxsplit) ==
  LET occ == ROcc(t, sep, Len(t), IF maxsplit < 0 THEN Len(t) + 1 ELSE maxsplit)
      k == Len(occ)
  IN [i \in 1..(k + 1) |->
        << IF i = 1 THEN 0 ELSE occ[i-1] + Len(sep), IF i = k + 1 THEN Len(t) ELSE occ[i] >>]

\* split() on whitespace runs
RECURSIVE SkipWS(_, _)
SkipWS(t, i) == IF i < Len(t) /\ IsWS(t[i+1]) THEN SkipWS(t, i + 1) ELSE i
RECURSIVE SkipNonWS(_, _)
SkipNonWS(t, i) == IF i < Len(t) /\ ~IsWS(t[i+1]) THEN SkipNonWS(t, i + 1) ELSE i
RECURSIVE SkipWSBack(_, _)
SkipWSBack(t, i) == IF i > 0 /\ IsWS(t[i]) THEN SkipWSBack(t, i - 1) ELSE i
RECURSIVE SkipNonWSBack(_, _)
SkipNonWSBack(t, i) == IF i > 0 /\ ~IsWS(t[i]) THEN SkipNonWSBack(t, i - 1) ELSE i

RECURSIVE SplitWSFrom(_, _, _)
SplitWSFrom(t, i0, left) ==
  LET i == SkipWS(t, i0) IN
  IF i >= Len(t) THEN << >>
  ELSE IF left = 0 THEN << <<i, Len(t)>> >>                      \* the rest, trailing whitespace kept
  ELSE LET j == SkipNonWS(t, i) IN << <<i, j>> >> \o SplitWSFrom(t, j, left - 1)
SplitWS(t, maxsplit) == SplitWSFrom(t, 0, IF maxsplit < 0 THEN Len(t) + 1 ELSE maxsplit)

RECURSIVE RSplitWSFrom(_, _, _)
RSplitWSFrom(t, j0, left) ==
  LET j == SkipWSBack(t, j0) IN
  IF j <= 0 THEN << >>
  ELSE IF left = 0 THEN << <<0, j>> >>                           \* the rest, leading whitespace kept
  ELSE LET i == SkipNonWSBack(t, j) IN RSplitWSFrom(t, i, left - 1) \o << <<i, j>> >>
RSplitWS(t, maxsplit) == RSplitWSFrom(t, Len(t), IF maxsplit < 0 THEN Len(t) + 1 ELSE maxsplit)

\* splitlines: boundaries \n \r \r\n \v \f (simple fragment)
IsLB(c) == c \in {10, 13, 11, 12}
RECURSIVE LinesFrom(_, _, _)
LinesFrom(t, i, keep) ==
  IF i >= Len(t) THEN << >>
  ELSE LET RECURSIVE ToLB(_)
           ToLB(j) == IF j < Len(t) /\ ~IsLB(t[j+1]) THEN ToLB(j + 1) ELSE j
           j == ToLB(i)
           brk == IF j >= Len(t) THEN 0
                  ELSE IF t[j+1] = 13 /\ j + 1 < Len(t) /\ t[j+2] = 10 THEN 2 ELSE 1
       IN << <<i, IF keep THEN j + brk ELSE j>> >> \o LinesFrom(t, j + brk, keep)
SplitLines(t, keep) == LinesFrom(t, 0, keep)

\* strip counts: how many characters go on the left / right
RECURSIVE LCount(_, _, _)
LCount(t, chars, i) == IF i < Len(t) /\ InSeq(t[i+1], chars) THEN LCount(t, chars, i + 1) ELSE i
RECURSIVE RKeep(_, _, _)
RKeep(t, chars, j) == IF j > 0 /\ InSeq(t[j], chars) THEN RKeep(t, chars, j - 1) ELSE j
\* offsets <<lo, hi>> of what remains
StripRange(t, chars, left, right) ==
  LET lo == IF left THEN LCount(t, chars, 0) ELSE 0
      hi == IF right THEN RKeep(t, chars, Len(t)) ELSE Len(t)
  IN << lo, IF hi < lo THEN lo ELSE hi >>

StartsWith(t, p) == MatchAt(t, p, 0)
EndsWith(t, p)   == Len(p) <= Len(t) /\ MatchAt(t, p, Len(t) - Len(p))

---------------------------------------------------------------------------
\* case mapping for ASCII letters
IsUpper(c) == c \in 65..90
IsLower(c) == c \in 97..122
IsAlpha(c) == IsUpper(c) \/ IsLower(c)
ToLower(c) == IF IsUpper(c) THEN c + 32 ELSE c
ToUpper(c) == IF IsLower(c) THEN c - 32 ELSE c
Lower(t) == [i \in DOMAIN t |-> ToLower(t[i])]
Upper(t) == [i \in DOMAIN t |-> ToUpper(t[i])]
SwapCase(t) == [i \in DOMAIN t |-> IF IsUpper(t[i]) THEN t[i] + 32 ELSE IF IsLower(t[i]) THEN t[i] - 32 ELSE t[i]]
Capitalize(t) == [i \in DOMAIN t |-> IF i = 1 THEN ToUpper(t[i]) ELSE ToLower(t[i])]
Title(t) == [i \in DOMAIN t |-> IF i = 1 \/ ~IsAlpha(t[i-1]) THEN ToUpper(t[i]) ELSE ToLower(t[i])]

\* classifiers (ASCII)
IsDigitC(c) == c \in 48..57
IsAlnum(t)  == t # << >> /\ \A i \in DOMAIN t : IsAlpha(t[i]) \/ IsDigitC(t[i])
IsAlphaS(t) == t # << >> /\ \A i \in DOMAIN t : IsAlpha(t[i])
IsDigitS(t) == t # << >> /\ \A i \in DOMAIN t : IsDigitC(t[i])
IsSpaceS(t) == t # << >> /\ \A i \in DOMAIN t : IsWS(t[i]) \/ t[i] \in 28..31
IsLowerS(t) == (\E i \in DOMAIN t : IsLower(t[i])) /\ ~\E i \in DOMAIN t : IsUpper(t[i])
IsUpperS(t) == (\E i \in DOMAIN t : IsUpper(t[i])) /\ ~\E i \in DOMAIN t : IsLower(t[i])
IsTitleS(t) == /\ \E i \in DOMAIN t : IsAlpha(t[i])
               /\ \A i \in DOMAIN t :
                    /\ IsUpper(t[i]) => (i = 1 \/ ~IsAlpha(t[i-1]))
                    /\ IsLower(t[i]) => (i > 1 /\ IsAlpha(t[i-1]))
IsPrintableS(t) == \A i \in DOMAIN t : t[i] \in 32..126
IsAsciiS(t) == \A i \in DOMAIN t : t[i] < 128

---------------------------------------------------------------------------
\* padding: <<left, right>> numbers of fill characters
PadLJust(n, width)  == << 0, IF width > n THEN width - n ELSE 0 >>
PadRJust(n, width)  == << IF width > n THEN width - n ELSE 0, 0 >>
\* like format()'s '^': the extra fill character goes to the right
PadCenter(n, width) == IF width > n THEN << (width - n) \div 2, (width - n) - ((width - n) \div 2) >> ELSE <<0, 0>>
=============================================================================
