------------------------------ MODULE CtrlSeq ------------------------------
(***************************************************************************)
(* Control-sequence tokenisation of code-point strings.                    *)
(*   - TokSgr: what a terminal sees in rendered output (characters, SGR    *)
(*     sequences, other CSI sequences, an unterminated CSI)                *)
(*   - Scan: the control-sequence parser of property C19 with its three    *)
(*     constructor flags, and Reinsert, its inverse                        *)
(***************************************************************************)
EXTENDS SGR

IsFinal(cp)  == cp \in 64..126          \* 0x40-0x7E
IsParamByte(cp) == cp \in 48..63        \* 0x30-0x3F
IsCSIAt(s, i) == i + 1 <= Len(s) /\ s[i] = ESC /\ s[i+1] = LBRK

\* index of the first final byte at or after i, 0 if there is none
RECURSIVE FirstFinal(_, _)
FirstFinal(s, i) == IF i > Len(s) THEN 0 ELSE IF IsFinal(s[i]) THEN i ELSE FirstFinal(s, i+1)
\* where the body of a control sequence that starts before i stops: at its final byte, or at an ESC - which is neither a
\* parameter byte nor a final byte and ABORTS the sequence (it is not consumed: a new sequence may start there); 0: at the end
\* (the same holds for every character that is neither a parameter/intermediate byte 0x20-0x3F nor a final byte: a
\* newline or other control character, DEL, non-ASCII text)
IsBodyByte(cp) == cp \in 32..63
RECURSIVE BodyStop(_, _)
BodyStop(s, i) == IF i > Len(s) THEN 0 ELSE IF ~IsBodyByte(s[i]) THEN i ELSE BodyStop(s, i+1)
Aborts(cp) == ~IsFinal(cp)            \* at a BodyStop position: the sequence is aborted, the character not consumed

---------------------------------------------------------------------------
\* Tokens of rendered output: <<"c", <<cp>>>>, <<"sgr", params>>, <<"csi", whole>>, <<"open", rest>>
RECURSIVE TokSgr(_, _)
TokSgr(s, i) ==
  IF i > Len(s) THEN << >>
  ELSE IF IsCSIAt(s, i) THEN
    LET j == BodyStop(s, i + 2) IN
    IF j = 0 THEN << <<"open", SubSeq(s, i, Len(s))>> >>
    ELSE IF Aborts(s[j]) THEN << <<"csi", SubSeq(s, i, j - 1)>> >> \o TokSgr(s, j)       \* aborted
    \* SGR = final byte m and nothing but digits, ';' and ':' before it: a private parameter string (< = > ?) or
    \* intermediate bytes (space, + - ...) make it another, unassigned function
    ELSE IF s[j] = LOWM /\ (\A k \in (i + 2)..(j - 1) : s[k] \in 48..59)
         THEN << <<"sgr", SubSeq(s, i + 2, j - 1)>> >> \o TokSgr(s, j + 1)
    ELSE << <<"csi", SubSeq(s, i, j)>> >> \o TokSgr(s, j + 1)
  ELSE << <<"c", <<s[i]>> >> >> \o TokSgr(s, i + 1)

Tokens(s) == TokSgr(s, 1)

\* A terminal reads an empty parameter as its default value, 0 (ECMA-48 5.4.2)
ParamListE(text) ==
  LET parts == SplitOn(text, SEMI) IN
  IF \A i \in DOMAIN parts : parts[i] = << >> \/ AllDigits(parts[i])
  THEN [ok |-> TRUE,  ps |-> [i \in DOMAIN parts |-> IF parts[i] = << >> THEN 0 ELSE Num(parts[i])]]
  ELSE [ok |-> FALSE, ps |-> << >>]

\* effects of one SGR sequence body as a terminal reads it
SgrRead(params) ==
  LET pl == ParamListE(params) IN
  IF ~pl.ok THEN [ok |-> FALSE, effs |-> << >>] ELSE TermEffs(pl.ps)

\* Run a terminal over tokens: the characters shown with the state they are shown in, and the final state
RECURSIVE RunToks(_, _, _)
RunToks(toks, i, sig) ==
  IF i > Len(toks) THEN [chars |-> << >>, fin |-> sig]
  ELSE IF toks[i][1] = "c" THEN
    LET r == RunToks(toks, i + 1, sig) IN
    [chars |-> << <<toks[i][2][1], sig>> >> \o r.chars, fin |-> r.fin]
  ELSE IF toks[i][1] = "sgr" THEN RunToks(toks, i + 1, TermRun(sig, SgrRead(toks[i][2]).effs))
  ELSE RunToks(toks, i + 1, sig)

ToksClean(toks) == \A i \in DOMAIN toks : toks[i][1] \in {"c", "sgr"}
ToksReadable(toks) == \A i \in DOMAIN toks : toks[i][1] = "sgr" => SgrRead(toks[i][2]).ok
HasSgr(toks) == \E i \in DOMAIN toks : toks[i][1] = "sgr"
CharsOf(toks) == LET cs == SelectSeq(toks, LAMBDA t : t[1] = "c") IN [i \in DOMAIN cs |-> cs[i][2][1]]

\* every "ESC [ parameter-bytes m" sequence removed
StripSgr(s) == CharsOf(SelectSeq(Tokens(s), LAMBDA t : t[1] # "sgr" \/ ~(\A k \in DOMAIN t[2] : IsParamByte(t[2][k]))))

---------------------------------------------------------------------------
(***************************************************************************)
(* C19.  acc = << >> means "any terminator acceptable" (None), otherwise   *)
(* <<set-as-sequence>> of acceptable final bytes.  A sequence is           *)
(* <<pos, body, term>>: pos = number of text characters before it,         *)
(* term = << >> (unterminated) or <<cp>>.                                  *)
(* Body = the run of bytes up to the final byte or an aborting ESC;        *)
(* the run consists of parameter and intermediate bytes (0x20-0x3F) by     *)
(* construction, so InClaimCS holds for every string (it is kept as the    *)
(* name of the claim; earlier readings of the code made it a real gate).   *)
(***************************************************************************)
RECURSIVE Scan(_, _, _, _, _)
Scan(s, i, allowEmpty, acc, ntext) ==
  IF i > Len(s) THEN [text |-> << >>, seqs |-> << >>]
  ELSE IF IsCSIAt(s, i) THEN
    LET j    == BodyStop(s, i + 2)
        body == IF j = 0 THEN SubSeq(s, i + 2, Len(s)) ELSE SubSeq(s, i + 2, j - 1)
        term == IF j = 0 \/ Aborts(s[j]) THEN << >> ELSE <<s[j]>>         \* aborted = unterminated
        next == IF j = 0 THEN Len(s) + 1 ELSE IF Aborts(s[j]) THEN j ELSE j + 1
        okT  == (term # << >> \/ allowEmpty)
                /\ (acc = << >> \/ term = << >> \/ \E k \in DOMAIN acc[1] : acc[1][k] = term[1])
    IN IF okT
       THEN LET r == Scan(s, next, allowEmpty, acc, ntext) IN
            [text |-> r.text, seqs |-> << <<ntext, body, term>> >> \o r.seqs]
       ELSE LET raw == SubSeq(s, i, next - 1)
                r == Scan(s, next, allowEmpty, acc, ntext + Len(raw)) IN
            [text |-> raw \o r.text, seqs |-> r.seqs]
  ELSE LET r == Scan(s, i + 1, allowEmpty, acc, ntext + 1) IN
       [text |-> <<s[i]>> \o r.text, seqs |-> r.seqs]

ParseCS(s, allowEmpty, acc) == Scan(s, 1, allowEmpty, acc, 0)

\* the three readings of "parameter bytes" agree on s
RECURSIVE InClaimFrom(_, _)
InClaimFrom(s, i) ==
  IF i > Len(s) THEN TRUE
  ELSE IF IsCSIAt(s, i) THEN
    LET j == BodyStop(s, i + 2)
        last == IF j = 0 THEN Len(s) ELSE j - 1
    IN (\A k \in (i + 2)..last : IsBodyByte(s[k]))       \* (true by construction of BodyStop: every string is inside the claim now)
       /\ InClaimFrom(s, IF j = 0 THEN Len(s) + 1 ELSE IF Aborts(s[j]) THEN j ELSE j + 1)
  ELSE InClaimFrom(s, i + 1)
InClaimCS(s) == InClaimFrom(s, 1)

\* re-insert sequences (in order) into text
RECURSIVE Reins(_, _, _, _)
Reins(text, seqs, k, pos) ==
  IF k > Len(seqs) THEN SubSeq(text, pos + 1, Len(text))
  ELSE LET q == seqs[k] IN
       SubSeq(text, pos + 1, q[1]) \o <<ESC, LBRK>> \o q[2] \o q[3] \o Reins(text, seqs, k + 1, q[1])
Reinsert(text, seqs) == Reins(text, seqs, 1, 0)

SeqsOrdered(seqs, n) == \A k \in DOMAIN seqs :
   /\ seqs[k][1] >= 0 /\ seqs[k][1] <= n
   /\ (k > 1 => seqs[k-1][1] <= seqs[k][1])
=============================================================================
