----------------------------- MODULE FormatSpec -----------------------------
(***************************************************************************)
(* The format-spec grammar of format(s, spec) / to_str(spec):              *)
(*      spec  ::= sf [ ":" ansi ]                                          *)
(*      sf    ::= [[fill] [sign] align] [width]                            *)
(*      sign  ::= "+" | "-"      align ::= "<" | ">" | "^"                 *)
(*      width ::= digit*                                                   *)
(* fill and sign are only recognised in front of an alignment character;   *)
(* a bare width left-justifies with spaces.  When several splits at a ":"  *)
(* give a valid sf, the longest sf wins (so ":" can be a fill character,   *)
(* as the library's tests pin down).  A spec like ":31" has exactly one    *)
(* reading: empty sf, ansi part "31" (the library rejected it until its    *)
(* commit db56092; an earlier version of this module excused that as an    *)
(* ambiguity - wrongly, see DESIGN.md section 6).                          *)
(***************************************************************************)
EXTENDS Integers, Sequences

FDigit(c) == c \in 48..57
FAlign(c) == c \in {60, 62, 94}
FSign(c)  == c \in {43, 45}

RECURSIVE DigitSuffixLen(_, _)
DigitSuffixLen(s, k) == IF k < Len(s) /\ FDigit(s[Len(s) - k]) THEN DigitSuffixLen(s, k + 1) ELSE k

RECURSIVE FNum(_)
FNum(d) == IF d = << >> THEN 0 ELSE (IF Len(d) > 8 THEN 99999999 ELSE FNum(SubSeq(d, 1, Len(d) - 1)) * 10 + (d[Len(d)] - 48))

Bad == [valid |-> FALSE, fill |-> 32, ext |-> TRUE, align |-> 60, haswidth |-> FALSE, width |-> 0, ambiguous |-> FALSE]

ParseSF(sf) ==
  LET k   == DigitSuffixLen(sf, 0)
      pre == SubSeq(sf, 1, Len(sf) - k)
      d   == SubSeq(sf, Len(sf) - k + 1, Len(sf))
      w   == [haswidth |-> d # << >>, width |-> FNum(d)]
      mk(fill, ext, align, amb) == [valid |-> TRUE, fill |-> fill, ext |-> ext, align |-> align,
                                    haswidth |-> w.haswidth, width |-> w.width, ambiguous |-> amb]
  IN CASE Len(pre) = 0 -> mk(32, TRUE, 60, FALSE)
       [] Len(pre) = 1 -> IF FAlign(pre[1]) THEN mk(32, TRUE, pre[1], FALSE) ELSE Bad
       [] Len(pre) = 2 -> IF FAlign(pre[2]) THEN mk(pre[1], TRUE, pre[2], FSign(pre[1])) ELSE Bad
       [] Len(pre) = 3 -> IF FAlign(pre[3]) /\ FSign(pre[2]) THEN mk(pre[1], pre[2] = 43, pre[3], FALSE) ELSE Bad
       [] OTHER -> Bad

\* candidate splits: 0 = no ansi part (whole spec is sf), c > 0 = the colon at position c separates sf from ansi
ValidSplit(spec, c) ==
  IF c = 0 THEN ParseSF(spec).valid
  ELSE spec[c] = 58 /\ ParseSF(SubSeq(spec, 1, c - 1)).valid

ParseFmt(spec) ==
  LET cands == {c \in 0..Len(spec) : ValidSplit(spec, c)} IN
  IF cands = {} THEN [valid |-> FALSE, sf |-> Bad, hasansi |-> FALSE, ansi |-> << >>]
  ELSE LET c == IF 0 \in cands THEN 0 ELSE CHOOSE x \in cands : \A y \in cands : y <= x IN
       IF c = 0 THEN [valid |-> TRUE, sf |-> ParseSF(spec), hasansi |-> FALSE, ansi |-> << >>]
       ELSE [valid |-> TRUE, sf |-> ParseSF(SubSeq(spec, 1, c - 1)), hasansi |-> TRUE,
             ansi |-> SubSeq(spec, c + 1, Len(spec))]
=============================================================================
