------------------------------ MODULE AnsiSegs ------------------------------
(***************************************************************************)
(* Segments: how contracts describe the expected result of an operation in *)
(* terms of the pre-state, plus small helpers shared by all contract       *)
(* modules.                                                                *)
(***************************************************************************)
EXTENDS AnsiValue

\* an input SGR body inside the claim: digits and ';' only; an empty parameter is read as 0 like a terminal does
SgrStrictOK(params) ==
  params = << >> \/ (LET pl == ParamListE(params) IN pl.ok /\ TermEffs(pl.ps).ok)


---------------------------------------------------------------------------
(***************************************************************************)
(* Expected results are described by SEGMENTS over the pre-state:          *)
(*  <<"reg", r, lo, hi>>       characters lo..hi-1 (0-based) of pre[r],    *)
(*                             with their settings                         *)
(*  <<"lit", text, "none",0,0>> literal text without settings              *)
(*  <<"lit", text, "at", r, i>> literal text, each character with the      *)
(*                             settings of character i (0-based) of pre[r] *)
(*  <<"txt", text, r, lo>>     literal text, k-th character (1-based) with *)
(*                             the settings of character lo+k-1 of pre[r]  *)
(*  <<"txtx", text, r>>        as "txt" from 0, the last character's       *)
(*                             settings extended over added characters     *)
(***************************************************************************)
StyAt0(v, i) == IF i + 1 \in DOMAIN v.s THEN v.s[i+1] ELSE << >>

SegT(seg, pre) ==
  IF seg[1] = "reg" THEN SubSeq(pre[seg[2]].t, seg[3] + 1, seg[4]) ELSE seg[2]

SegS(seg, pre) ==
  CASE seg[1] = "reg"  -> SubSeq(pre[seg[2]].s, seg[3] + 1, seg[4])
    [] seg[1] = "lit"  -> [k \in 1..Len(seg[2]) |->
                             IF seg[3] = "at" THEN StyAt0(pre[seg[4]], seg[5]) ELSE << >>]
    [] seg[1] = "txt"  -> [k \in 1..Len(seg[2]) |-> StyAt0(pre[seg[3]], seg[4] + k - 1)]
    [] seg[1] = "txtx" -> LET v == pre[seg[3]] n == Len(v.s) IN
                          [k \in 1..Len(seg[2]) |->
                             IF n = 0 THEN << >> ELSE v.s[IF k > n THEN n ELSE k]]

RECURSIVE ExpT(_, _, _)
ExpT(segs, pre, i) == IF i > Len(segs) THEN << >> ELSE SegT(segs[i], pre) \o ExpT(segs, pre, i+1)
RECURSIVE ExpS(_, _, _)
ExpS(segs, pre, i) == IF i > Len(segs) THEN << >> ELSE SegS(segs[i], pre) \o ExpS(segs, pre, i+1)

TextIs(w, segs, pre) == w.t = ExpT(segs, pre, 1)
StyIs(w, segs, pre)  == LET s == ExpS(segs, pre, 1) IN
                        /\ Len(w.s) = Len(s)
                        /\ \A k \in DOMAIN s : Equiv(w.s[k], s[k])
\* positions a..b (1-based, inclusive) only
StyIsOn(w, segs, pre, a, b) ==
  LET s == ExpS(segs, pre, 1) IN
  /\ Len(w.s) = Len(s)
  /\ \A k \in a..b : k \in DOMAIN s => Equiv(w.s[k], s[k])

HasStyle(v) == \E i \in DOMAIN v.s : v.s[i] # << >>

\* result value of an event: the receiver after an in-place call, else the (first) result register
ResultOf(e, post) == IF e.a.inplace = 1 THEN post[e.r] ELSE post[e.res[1]]
HasResult(e) == e.out = "ok" /\ (e.a.inplace = 1 \/ Len(e.res) >= 1)

\* result kind follows the receiver kind (C13: an AnsiStr method returns AnsiStr)
KindC(e, pre, post, want) ==
  Cl("C13.kind", want = "A",
     e.out = "ok" => \A i \in DOMAIN e.res : post[e.res[i]].k = want)

UsesParamOnly(v) == \A i \in DOMAIN v.s : \A k \in DOMAIN v.s[i] : ParamOnly[v.s[i][k][2]]
\* text occurs in body as a run of whole ';'-separated parameters
OccursIn(text, body) ==
  \E off \in 0..(Len(body) - Len(text)) :
     /\ SubSeq(body, off + 1, off + Len(text)) = text
     /\ (off = 0 \/ body[off] = SEMI)
     /\ (off + Len(text) = Len(body) \/ body[off + Len(text) + 1] = SEMI)

Shown(run, v) ==
  /\ Len(run.chars) = Len(v.t)
  /\ \A i \in DOMAIN v.t : run.chars[i][1] = v.t[i] /\ run.chars[i][2] = Display(v.s[i])

=============================================================================
