SPECIFICATION Spec
CONSTANTS
  MaxLen = 2
  MaxRegs = 2
  MaxDepth = 2
  Alphabet = {97, 45}
  Palette = {1, 2, 3}
  MaxTotalLen = 4
INVARIANT HeapShape
INVARIANT NoOverlong
PROPERTY ContractsHold
VIEW View
CHECK_DEADLOCK FALSE
