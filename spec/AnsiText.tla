------------------------------ MODULE AnsiText ------------------------------
(***************************************************************************)
(* Contracts of the str-like methods.                                      *)
(*   C10: result text(s) / values equal CPython's str on the base text     *)
(*        (logged oracle e.o.py), with the documented deviations computed  *)
(*        here; Text.tla's own definitions are audited against the oracle  *)
(*        (clauses "audit.*": a failure there is a machinery error, never  *)
(*        a violation).                                                    *)
(*   C11: every surviving character keeps the settings it had at its TRUE  *)
(*        offset in the original (offsets computed by Text.tla).           *)
(*   C12: padding.                                                         *)
(***************************************************************************)
EXTENDS AnsiFuncs, Text, FormatSpec

PyOk(e) == e.o.pyout = "ok"
PyText(e) == e.o.py.v
Pieces(e, post) == [k \in DOMAIN e.res |-> post[e.res[k]]]

\* outcome agrees with str: defined where str is defined
OutcomeLikeStr(e, exempt) ==
     Cl("C10.defined_like_str", PyOk(e), (PyOk(e) /\ ~exempt) => e.out = "ok")
  \o Cl("C10.raises_like_str", ~PyOk(e), (~PyOk(e) /\ ~exempt) => e.out # "ok")

OffsetsToTexts(t, offs) == [k \in DOMAIN offs |-> Sub0(t, offs[k][1], offs[k][2])]

\* pieces (result registers) against expected offsets in the receiver
PiecesC(e, pre, post, offs, claimOffsets) ==
  LET v == pre[e.r] ps == Pieces(e, post) IN
     Cl("C10.piece_texts", TRUE, PyOk(e) => (Len(ps) = Len(PyText(e)) /\ \A k \in DOMAIN ps : ps[k].t = PyText(e)[k]))
  \o Cl("audit.offsets", claimOffsets /\ PyOk(e), (claimOffsets /\ PyOk(e)) => OffsetsToTexts(v.t, offs) = PyText(e))
  \o Cl("C11.piece_sty", claimOffsets /\ HasStyle(v) /\ offs # << >>,
        claimOffsets =>
          (Len(ps) = Len(offs) /\
           \A k \in DOMAIN offs : StyIs(ps[k], << <<"reg", e.r, offs[k][1], offs[k][2]>> >>, pre)))
  \o KindC(e, pre, post, v.k)

---------------------------------------------------------------------------
CaseText(m, t) ==
  CASE m = "lower" -> Lower(t) [] m = "casefold" -> Lower(t) [] m = "upper" -> Upper(t)
    [] m = "swapcase" -> SwapCase(t) [] m = "capitalize" -> Capitalize(t) [] m = "title" -> Title(t)

CaseC(e, pre, post) ==
  LET v == pre[e.r] IN
  OutcomeLikeStr(e, FALSE)
  \o IF ~HasResult(e) \/ ~PyOk(e) THEN None ELSE
     LET w == ResultOf(e, post) py == PyText(e) IN
        Cl("C10.text", TRUE, w.t = py)
     \o Cl("audit.case", Simple(v.t), Simple(v.t) => CaseText(e.a.m, v.t) = py)
     \o Cl("C11.case_sty", HasStyle(v) /\ Len(py) = Len(v.t),
           Len(py) = Len(v.t) => StyIs(w, << <<"txt", py, e.r, 0>> >>, pre))
     \o KindC(e, pre, post, v.k)

---------------------------------------------------------------------------
PadOf(m, n, width) ==
  CASE m = "ljust" -> PadLJust(n, width)
    [] m \in {"rjust", "zfill"} -> PadRJust(n, width)
    [] m = "center" -> PadCenter(n, width)

PadSegs(r, n, pad, f, ext) ==
  << IF ext THEN <<"lit", Rep(f, pad[1]), "at", r, 0>> ELSE <<"lit", Rep(f, pad[1]), "none", 0, 0>>,
     <<"reg", r, 0, n>>,
     IF ext THEN <<"lit", Rep(f, pad[2]), "at", r, n - 1>> ELSE <<"lit", Rep(f, pad[2]), "none", 0, 0>> >>

StripSegs(r, t, m, charsOpt) ==
  LET chars == IF charsOpt = << >> THEN DefaultStripSet ELSE charsOpt[1]
      rg == StripRange(t, chars, m \in {"strip", "lstrip"}, m \in {"strip", "rstrip"})
  IN << <<"reg", r, rg[1], rg[2]>> >>

PadC(e, pre, post) ==
  LET v == pre[e.r] n == Len(v.t)
      fillOk == Len(e.a.fill) = 1
      pad == PadOf(e.a.m, n, e.a.width)
  IN Cl("C12.bad_fill_rejected", ~fillOk, ~fillOk => e.out \in {"raise:ValueError", "raise:TypeError"})
  \* ("x": a call recorded from the repository's own tests, for which str's outcome is not logged: none of them passes such a width)
  \o Cl("C12.defined", fillOk /\ e.o.pyout \in {"ok", "x"}, (fillOk /\ e.o.pyout \in {"ok", "x"}) => e.out = "ok")
  \* a width beyond the index range: str raises OverflowError for the same call, and so must the library
  \o Cl("C12.raises_like_str", fillOk /\ e.o.pyout \notin {"ok", "x"}, (fillOk /\ e.o.pyout \notin {"ok", "x"}) => e.out = e.o.pyout)
  \o IF ~HasResult(e) \/ ~fillOk THEN None ELSE
     LET w == ResultOf(e, post)
         f == e.a.fill[1]
         ext == e.a.extend = 1
         segs == PadSegs(e.r, n, pad, f, ext)
     IN Cl("C12.text", pad # <<0, 0>>, TextIs(w, segs, pre))
     \o Cl("C10.text", PyOk(e), PyOk(e) => w.t = PyText(e))
     \o Cl("C12.original_keeps_sty", HasStyle(v), StyIsOn(w, segs, pre, pad[1] + 1, pad[1] + n))
     \o Cl("C12.fill_sty", HasStyle(v) /\ pad # <<0, 0>>,
           StyIsOn(w, segs, pre, 1, pad[1]) /\ StyIsOn(w, segs, pre, pad[1] + n + 1, pad[1] + n + pad[2]))
     \o KindC(e, pre, post, v.k)

\* a huge padding (zero and huge widths are part of C09's quantifier): judged on its length and on sampled positions
PadHugeC(e, pre, post) ==
  LET v == pre[e.r] n == Len(v.t)
      pad == PadOf(e.a.m, n, e.a.width)
      f == e.a.fill[1]
      ext == e.a.extend = 1
      WantChar(p) == IF p < pad[1] THEN f ELSE IF p < pad[1] + n THEN v.t[p - pad[1] + 1] ELSE f
      WantSty(p) == IF p < pad[1] THEN (IF ext THEN StyAt0(v, 0) ELSE << >>)
                    ELSE IF p < pad[1] + n THEN v.s[p - pad[1] + 1]
                    ELSE (IF ext THEN StyAt0(v, n - 1) ELSE << >>)
  IN Cl("C09.huge_width_terminates", TRUE, e.out = "ok")
  \o IF e.out # "ok" THEN None ELSE
        Cl("C12.huge_length", TRUE, e.o.len = pad[1] + n + pad[2])
     \o Cl("C12.huge_text_samples", TRUE, \A k \in DOMAIN e.o.pos : e.o.chars[k] = WantChar(e.o.pos[k]))
     \o Cl("C12.huge_sty_samples", HasStyle(v), \A k \in DOMAIN e.o.pos : Equiv(e.o.sty[k], WantSty(e.o.pos[k])))
     \o Cl("C09.huge_nothing_beyond_end", TRUE, e.o.beyond = 0)

---------------------------------------------------------------------------
StripC(e, pre, post) ==
  LET v == pre[e.r]
      segs == StripSegs(e.r, v.t, e.a.m, e.a.chars)
      rg == <<segs[1][3], segs[1][4]>>
  IN OutcomeLikeStr(e, FALSE)
  \o IF ~HasResult(e) THEN None ELSE
     LET w == ResultOf(e, post) IN
        Cl("C10.text", PyOk(e), PyOk(e) => w.t = PyText(e))
     \o Cl("audit.strip", PyOk(e), PyOk(e) => ExpT(segs, pre, 1) = PyText(e))
     \o Cl("C11.strip_sty", HasStyle(v) /\ rg[2] > rg[1], StyIs(w, segs, pre))
     \o KindC(e, pre, post, v.k)

RmfixC(e, pre, post) ==
  LET v == pre[e.r] n == Len(v.t) s == e.a.s
      rg == IF e.a.m = "removeprefix"
            THEN (IF StartsWith(v.t, s) THEN <<Len(s), n>> ELSE <<0, n>>)
            ELSE (IF EndsWith(v.t, s) THEN <<0, n - Len(s)>> ELSE <<0, n>>)
      segs == << <<"reg", e.r, rg[1], rg[2]>> >>
  IN OutcomeLikeStr(e, FALSE)
  \o IF ~HasResult(e) THEN None ELSE
     LET w == ResultOf(e, post) IN
        Cl("C10.text", PyOk(e), PyOk(e) => w.t = PyText(e))
     \o Cl("audit.rmfix", PyOk(e), PyOk(e) => ExpT(segs, pre, 1) = PyText(e))
     \o Cl("C11.rmfix_sty", HasStyle(v) /\ rg[2] > rg[1], StyIs(w, segs, pre))
     \o KindC(e, pre, post, v.k)

---------------------------------------------------------------------------
\* replace / expandtabs: segments = text between matches (from the receiver) and, per match, the replacement
RECURSIVE ReplSegs(_, _, _, _, _, _)
ReplSegs(r, n, occ, k, oldLen, repl) ==       \* repl(i) = the segment replacing the match that starts at i
  IF k > Len(occ) THEN << <<"reg", r, IF k = 1 THEN 0 ELSE occ[k-1] + oldLen, n>> >>
  ELSE << <<"reg", r, IF k = 1 THEN 0 ELSE occ[k-1] + oldLen, occ[k]>>, repl[occ[k]] >>
       \o ReplSegs(r, n, occ, k + 1, oldLen, repl)

ReplaceLikeC(e, pre, post, old, count, newIsReg, newReg, newText, exemptEmpty) ==
  LET v == pre[e.r] n == Len(v.t)
      claim == old # << >>
      occ == IF claim THEN Occurrences(v.t, old, count) ELSE << >>
      repl == [i \in 0..n |-> IF newIsReg /\ pre[newReg].k # "P"
                              THEN <<"reg", newReg, 0, Len(pre[newReg].t)>>
                              ELSE <<"lit", newText, "at", e.r, i>>]
      segs == ReplSegs(e.r, n, occ, 1, Len(old), repl)
  IN OutcomeLikeStr(e, ~claim)
  \o IF ~HasResult(e) \/ ~claim THEN None ELSE
     LET w == ResultOf(e, post) IN
        Cl("C10.text", PyOk(e), PyOk(e) => w.t = PyText(e))
     \o Cl("audit.replace", PyOk(e), PyOk(e) => ExpT(segs, pre, 1) = PyText(e))
     \o Cl("C11.replace_sty", occ # << >> /\ (HasStyle(v) \/ (newIsReg /\ HasStyle(pre[newReg]))), StyIs(w, segs, pre))
     \o Cl("C11.replace_nomatch", occ = << >> /\ HasStyle(v), occ = << >> => StyIs(w, << <<"reg", e.r, 0, n>> >>, pre))
     \o KindC(e, pre, post, v.k)

\* A plain str replacement that contains escape sequences is converted like any str argument (parsed on its own, see
\* C05.plain_escape_operands): the TEXT of the result is str.replace with the parsed text of the replacement - in
\* particular every match is replaced, whatever the raw length of the replacement.
ReplaceEscC(e, pre, post) ==
  LET v == pre[e.r] n == Len(v.t) new == pre[e.a.new].t old == e.a.old
      tk == Tokens(new)
      claim == old # << >> /\ NoEsc(v.t) /\ InClaimCS(new) /\ (\A j \in DOMAIN tk : tk[j][1] \in {"c", "sgr"})
               /\ (\A j \in DOMAIN tk : tk[j][1] = "sgr" => SgrStrictOK(tk[j][2]))
      parsed == CharsOf(tk)
      occ == IF claim THEN Occurrences(v.t, old, e.a.count) ELSE << >>
      repl == [i \in 0..n |-> <<"lit", parsed, "at", e.r, i>>]
      segs == ReplSegs(e.r, n, occ, 1, Len(old), repl)
  IN Cl("C10.replace_escape_defined", claim, claim => e.out = "ok")
  \o IF ~HasResult(e) \/ ~claim THEN None ELSE
        Cl("C10.replace_escape_text", TRUE, ResultOf(e, post).t = ExpT(segs, pre, 1))

ReplaceC(e, pre, post) ==
  IF pre[e.a.new].k = "P" /\ ~NoEsc(pre[e.a.new].t) THEN ReplaceEscC(e, pre, post)
  ELSE ReplaceLikeC(e, pre, post, e.a.old, e.a.count, TRUE, e.a.new, pre[e.a.new].t, TRUE)
ExpandtabsC(e, pre, post) ==
  IF e.a.tabsize < 0 THEN None
  ELSE ReplaceLikeC(e, pre, post, <<9>>, -1, FALSE, 0, Rep(32, e.a.tabsize), TRUE)

---------------------------------------------------------------------------
SplitC(e, pre, post) ==
  LET v == pre[e.r]
      ws == e.a.sep = << >>
      sep == IF ws THEN << >> ELSE e.a.sep[1]
      emptySep == ~ws /\ sep = << >>
      claim == IF ws THEN Simple(v.t) ELSE ~emptySep
      offs == IF ~claim THEN << >>
              ELSE IF ws THEN (IF e.a.m = "split" THEN SplitWS(v.t, e.a.maxsplit) ELSE RSplitWS(v.t, e.a.maxsplit))
              ELSE (IF e.a.m = "split" THEN SplitSep(v.t, sep, e.a.maxsplit) ELSE RSplitSep(v.t, sep, e.a.maxsplit))
  IN OutcomeLikeStr(e, emptySep)
  \o IF e.out # "ok" \/ ~PyOk(e) THEN None ELSE PiecesC(e, pre, post, offs, claim)

SplitlinesC(e, pre, post) ==
  LET v == pre[e.r] claim == Simple(v.t)
      offs == IF claim THEN SplitLines(v.t, e.a.keep = 1) ELSE << >>
  IN OutcomeLikeStr(e, FALSE)
  \o IF e.out # "ok" \/ ~PyOk(e) THEN None ELSE PiecesC(e, pre, post, offs, claim)

\* partition / rpartition; when the separator is absent BOTH return (s, '', '') (documented deviation)
PartitionC(e, pre, post) ==
  LET v == pre[e.r] n == Len(v.t) sep == e.a.sep
      claim == sep # << >>
      i == IF e.a.m = "partition" THEN Find(v.t, sep, 0, n) ELSE RFind(v.t, sep, 0, n)
      offs == IF i >= 0 THEN << <<0, i>>, <<i, i + Len(sep)>>, <<i + Len(sep), n>> >>
              ELSE << <<0, n>>, <<n, n>>, <<n, n>> >>
      want == OffsetsToTexts(v.t, offs)
  IN OutcomeLikeStr(e, ~claim)
  \o IF e.out # "ok" \/ ~claim THEN None ELSE
     LET ps == Pieces(e, post) IN
        Cl("C10.partition_texts", TRUE, Len(ps) = 3 /\ \A k \in 1..3 : k \in DOMAIN ps => ps[k].t = want[k])
     \o Cl("audit.partition", PyOk(e) /\ (i >= 0 \/ e.a.m = "partition"),
           (PyOk(e) /\ (i >= 0 \/ e.a.m = "partition")) => want = PyText(e))
     \o Cl("C11.partition_sty", HasStyle(v),
           Len(ps) = 3 /\ \A k \in 1..3 : StyIs(ps[k], << <<"reg", e.r, offs[k][1], offs[k][2]>> >>, pre))
     \o Cl("C13.partition_kind", v.k = "A", \A k \in DOMAIN ps : ps[k].k = v.k)

---------------------------------------------------------------------------
AssignStrC(e, pre, post) ==
  LET v == pre[e.r] segs == << <<"txtx", e.a.text, e.r>> >> IN
     Cl("C11.assign_defined", TRUE, e.out = "ok")
  \o IF ~HasResult(e) THEN None ELSE
     LET w == ResultOf(e, post) IN
        Cl("C11.assign_text", TRUE, w.t = e.a.text)
     \o Cl("C11.assign_sty", HasStyle(v) /\ e.a.text # << >>, StyIs(w, segs, pre))

---------------------------------------------------------------------------
\* queries: equal to str's answer; for the simple fragment Text.tla computes the answer as well
QuerySpec(m, t, a) ==
  CASE m = "count"  -> [t |-> "i", v |-> PyCount(t, a.sub, a.start, a.end)]
    [] m = "find"   -> [t |-> "i", v |-> PyFind(t, a.sub, a.start, a.end)]
    [] m = "rfind"  -> [t |-> "i", v |-> PyRFind(t, a.sub, a.start, a.end)]
    [] m = "len"    -> [t |-> "i", v |-> Len(t)]
    [] m = "isalnum" -> [t |-> "b", v |-> IF IsAlnum(t) THEN 1 ELSE 0]
    [] m = "isalpha" -> [t |-> "b", v |-> IF IsAlphaS(t) THEN 1 ELSE 0]
    [] m = "isdigit" -> [t |-> "b", v |-> IF IsDigitS(t) THEN 1 ELSE 0]
    [] m = "isdecimal" -> [t |-> "b", v |-> IF IsDigitS(t) THEN 1 ELSE 0]
    [] m = "isnumeric" -> [t |-> "b", v |-> IF IsDigitS(t) THEN 1 ELSE 0]
    [] m = "isspace" -> [t |-> "b", v |-> IF IsSpaceS(t) THEN 1 ELSE 0]
    [] m = "islower" -> [t |-> "b", v |-> IF IsLowerS(t) THEN 1 ELSE 0]
    [] m = "isupper" -> [t |-> "b", v |-> IF IsUpperS(t) THEN 1 ELSE 0]
    [] m = "istitle" -> [t |-> "b", v |-> IF IsTitleS(t) THEN 1 ELSE 0]
    [] m = "isprintable" -> [t |-> "b", v |-> IF IsPrintableS(t) THEN 1 ELSE 0]
    [] m = "isascii" -> [t |-> "b", v |-> IF IsAsciiS(t) THEN 1 ELSE 0]
    [] m = "contains" -> [t |-> "b", v |-> IF Find(t, a.sub, 0, Len(t)) >= 0 THEN 1 ELSE 0]
    [] OTHER -> [t |-> "none", v |-> 0]

QueryC(e, pre, post) ==
  LET v == pre[e.r] IN
  OutcomeLikeStr(e, FALSE)
  \o IF e.out # "ok" \/ ~PyOk(e) THEN None ELSE
     LET spec == QuerySpec(e.a.m, v.t, e.a) IN
        Cl("C10.value", TRUE, e.o.val = e.o.py)
     \o Cl("audit.query", Simple(v.t) /\ spec.t # "none", (Simple(v.t) /\ spec.t # "none") => spec = e.o.py)

---------------------------------------------------------------------------
\* C12: format(s, spec) / to_str(spec).  The harness builds the twin "padding + apply_formatting on a copy"
\* from its own reading of the spec (e.a.py), which is audited against FormatSpec.tla here.
FmtC(e, pre, post) ==
  LET v == pre[e.r] n == Len(v.t)
      p == ParseFmt(e.a.spec)
      same == (e.a.py_valid = 1) = p.valid /\
              (p.valid =>
                 /\ e.a.py.fill = p.sf.fill /\ (e.a.py.ext = 1) = p.sf.ext /\ e.a.py.align = p.sf.align
                 /\ (e.a.py.haswidth = 1) = p.sf.haswidth /\ (p.sf.haswidth => e.a.py.width = p.sf.width)
                 /\ (e.a.py.amb = 1) = p.sf.ambiguous
                 /\ (e.a.py.hasansi = 1) = p.hasansi /\ e.a.py.ansi = p.ansi)
      claim == p.valid /\ ~p.sf.ambiguous /\ e.a.ansi_ok = 1 /\ e.a.how # "fstr"
  IN Cl("audit.fmt_parse", TRUE, same)
  \* format(s, spec) / to_str(spec) never changes s (whatever the outcome): no update of the receiver is logged
  \o Cl("C12.format_never_changes_receiver", HasStyle(v), \A i \in DOMAIN e.upd : e.upd[i][1] # e.r)
  \o Cl("C12.format_invalid_raises", ~p.valid /\ e.a.how # "fstr", (~p.valid /\ e.a.how # "fstr") => e.out = "raise:ValueError")
  \o Cl("C12.format_defined", claim, claim => e.out = "ok")
  \o IF e.out # "ok" \/ ~claim \/ e.a.has_twin # 1 \/ Len(e.res) # 1 THEN None ELSE
     LET twin == post[e.res[1]]
         out == e.o.out
         toks == Tokens(out)
         w == IF p.sf.haswidth THEN p.sf.width ELSE 0
         pad == IF p.sf.align = 60 THEN PadLJust(n, w) ELSE IF p.sf.align = 62 THEN PadRJust(n, w) ELSE PadCenter(n, w)
         wantText == Rep(p.sf.fill, pad[1]) \o v.t \o Rep(p.sf.fill, pad[2])
         dclaim == ValAllSingle(twin) /\ NoEsc(wantText)
     IN Cl("C12.format_equals_pad_apply", TRUE, out = e.o.twin_out)
     \o Cl("C12.format_text", NoEsc(wantText), NoEsc(wantText) => (twin.t = wantText /\ (ValReadable(twin) => CharsOf(toks) = wantText)))
     \o Cl("C12.format_display", dclaim /\ HasStyle(twin), dclaim => Shown(RunToks(toks, 1, DefaultState), twin))
     \o Cl("C12.format_fill_sty", HasStyle(v) /\ pad # <<0, 0>> /\ ~p.hasansi,
           ~p.hasansi =>
             LET segs == << IF p.sf.ext THEN <<"lit", Rep(p.sf.fill, pad[1]), "at", e.r, 0>> ELSE <<"lit", Rep(p.sf.fill, pad[1]), "none", 0, 0>>,
                            <<"reg", e.r, 0, n>>,
                            IF p.sf.ext THEN <<"lit", Rep(p.sf.fill, pad[2]), "at", e.r, n - 1>> ELSE <<"lit", Rep(p.sf.fill, pad[2]), "none", 0, 0>> >>
             IN StyIs(twin, segs, pre))

TextOpClauses(e, pre, post) ==
  CASE e.op = "case" -> CaseC(e, pre, post)
    [] e.op = "pad" -> PadC(e, pre, post)
    [] e.op = "pad_huge" -> PadHugeC(e, pre, post)
    [] e.op = "fmt_huge" ->      \* a width beyond the machine index range: the error str itself raises (ValueError)
         Cl("C09.format_huge_width_like_str", e.a.pyout = "raise:ValueError", e.a.pyout = "raise:ValueError" => e.out = "raise:ValueError")
    [] e.op = "strip" -> StripC(e, pre, post)
    [] e.op = "rmfix" -> RmfixC(e, pre, post)
    [] e.op = "replace" -> ReplaceC(e, pre, post)
    [] e.op = "expandtabs" -> ExpandtabsC(e, pre, post)
    [] e.op = "split" -> SplitC(e, pre, post)
    [] e.op = "splitlines" -> SplitlinesC(e, pre, post)
    [] e.op = "partition" -> PartitionC(e, pre, post)
    [] e.op = "assign_str" -> AssignStrC(e, pre, post)
    [] e.op = "query" -> QueryC(e, pre, post)
    [] e.op = "fmt" -> FmtC(e, pre, post)
    [] OTHER -> None
=============================================================================
