------------------------------ MODULE CPSystem ------------------------------
(***************************************************************************)
(* State machine over the CONCRETE change-point tables (ChangePoints.tla). *)
(* Every action applies the transcribed algorithm; TLC checks on every     *)
(* transition that the table stays well formed (WF) and that the abstract  *)
(* values Abs(pre), Abs(post) satisfy every contract clause of AnsiOps     *)
(* (refinement of the listed properties), and that tables of registers     *)
(* the operation may not change are untouched.                             *)
(***************************************************************************)
EXTENDS ChangePoints

CONSTANTS MaxLen, MaxRegs, MaxDepth, Alphabet, Palette, MaxTotalLen, WithParse, Seeded, Narrow

VARIABLES ctab, ninst, depth, ev
cvars == <<ctab, ninst, depth, ev>>

Regs == 1..MaxRegs
NoObj == [k |-> "N", t |-> << >>, f |-> EmptyTab]
Live == {r \in Regs : ctab[r].k # "N"}
Free == {r \in Regs : ctab[r].k = "N"}
NextFree == CHOOSE r \in Free : \A q \in Free : r <= q

AbsOf(c) == IF c.k = "N" THEN Absent ELSE AbsVal(c.k, c.t, c.f)
AbsHeap(ct) == [r \in Regs |-> AbsOf(ct[r])]

TextsUpTo(n) == UNION {[1..k -> Alphabet] : k \in 0..n}
SettingLists == {<< >>} \cup {<<a>> : a \in Palette} \cup {<<a, b>> : a \in Palette, b \in Palette}
Fresh(S, base) == [i \in DOMAIN S |-> <<base + i, S[i]>>]
OptBounds(n) == {<< >>} \cup {<<x>> : x \in (-(n + 1))..(n + 1)}
RECURSIVE SetToSeq(_)
SetToSeq(S) == IF S = {} THEN << >> ELSE LET m == CHOOSE x \in S : TRUE IN <<m>> \o SetToSeq(S \ {m})

NoEvent == [op |-> "init", r |-> 0, a |-> [inplace |-> 0], out |-> "ok", res |-> << >>, same |-> 0,
            upd |-> << >>, o |-> [pyout |-> "ok"], tag |-> ""]

\* Seeded initial states: register 1 holds a value built by TWO range applications (transcribed CPApply) on a text of
\* MaxLen equal letters - nested, crossed, adjacent and coinciding ranges, on top and underneath.  Every seed is the
\* result of a real two-step history (new; apply; apply), so the bounded search then starts two steps deep.
SeedLetter == CHOOSE c \in Alphabet : TRUE
SeedText == [i \in 1..MaxLen |-> SeedLetter]
SeedRanges == {rg \in (0..MaxLen) \X (0..MaxLen) : rg[1] < rg[2]}
SeedTabs ==
  {CPApply(SeedText, CPApply(SeedText, EmptyTab, <<(<<1, x>>)>>, <<r1[1]>>, <<r1[2]>>, TRUE),
           <<(<<2, y>>)>>, <<r2[1]>>, <<r2[2]>>, top)
     : x \in Palette, y \in Palette, r1 \in SeedRanges, r2 \in SeedRanges, top \in BOOLEAN}

Init ==
  /\ IF Seeded
        THEN \E f \in SeedTabs : ctab = [r \in Regs |-> IF r = 1 THEN [k |-> "S", t |-> SeedText, f |-> f] ELSE NoObj]
        ELSE ctab = [r \in Regs |-> NoObj]
  /\ ninst = IF Seeded THEN 2 ELSE 0
  /\ depth = 0
  /\ ev = NoEvent

\* (the new table is bound through a singleton set: TLC re-evaluates action-level parameters on every reference)
Do(newtab, e, used) ==
  \E nt \in {newtab} :
  /\ ctab' = nt
  /\ ev' = [e EXCEPT !.upd = LET ah == AbsHeap(ctab) nh == AbsHeap(nt)
                                 ch == {r \in Regs : nh[r] # ah[r]}
                             IN SetToSeq({<<r, nh[r]>> : r \in ch})]
  /\ ninst' = ninst + used
  /\ depth' = depth + 1

Ev(op, r, a, res, same) ==
  [op |-> op, r |-> r, a |-> a, out |-> "ok", res |-> res, same |-> same, upd |-> << >>, o |-> [pyout |-> "ok"], tag |-> ""]

New ==
  \E t \in TextsUpTo(MaxLen), S \in SettingLists :
    LET r == NextFree
        f == CPApply(t, EmptyTab, Fresh(S, ninst), <<0>>, << >>, TRUE)
    IN Do([ctab EXCEPT ![r] = [k |-> "S", t |-> t, f |-> f]],
          Ev("new", 0, [cls |-> "S", src |-> 0, text |-> t, S |-> S, inplace |-> 0], <<r>>, 0), Len(S))

Apply ==
  \E x \in Live, S \in SettingLists \ {<< >>}, top \in {0, 1} :
    LET c == ctab[x] n == Len(c.t) IN
    \E st \in OptBounds(n) \ {<< >>}, en \in OptBounds(n) :
      Do([ctab EXCEPT ![x] = [c EXCEPT !.f = CPApply(c.t, c.f, Fresh(S, ninst), st, en, top = 1)]],
         Ev("apply", x, [S |-> S, start |-> st, end |-> en, top |-> top, inplace |-> 1], << >>, 0), Len(S))

Remove ==
  \E x \in Live, all \in {0, 1}, sel \in SettingLists :
    (all = 1 => sel = << >>) /\ (all = 0 => sel # << >>) /\
    LET c == ctab[x] n == Len(c.t) IN
    \E st \in OptBounds(n) \ {<< >>}, en \in OptBounds(n) :
      Do([ctab EXCEPT ![x] = [c EXCEPT !.f = CPRemove(c.t, c.f, all = 1, Range(sel), st, en)]],
         Ev("remove", x, [all |-> all, Sel |-> sel, start |-> st, end |-> en, inplace |-> 1], << >>, 0), 0)

Slice ==
  \E x \in Live :
    LET c == ctab[x] n == Len(c.t) r == NextFree IN
    \E st \in OptBounds(n), en \in OptBounds(n) :
      LET g == CPGetItem(c.t, c.f, SliceIdx(st, n, 0), SliceIdx(en, n, n)) IN
      Do([ctab EXCEPT ![r] = [k |-> "S", t |-> g[1], f |-> g[2]]],
         Ev("slice", x, [start |-> st, stop |-> en, inplace |-> 0], <<r>>, 0), 0)

\* copy = AnsiString(s): every point copied
Copy ==
  \E x \in Live :
    LET r == NextFree IN
    Do([ctab EXCEPT ![r] = ctab[x]], Ev("copy", x, [inplace |-> 0], <<r>>, 0), 0)

IAdd ==
  \E x \in Live, y \in Live :
    Len(ctab[x].t) + Len(ctab[y].t) <= MaxTotalLen /\
    LET g == CPIAdd(ctab[x].t, ctab[x].f, ctab[y].t, ctab[y].f) IN
    Do([ctab EXCEPT ![x] = [k |-> "S", t |-> g[1], f |-> g[2]]],
       Ev("iadd", x, [other |-> y, inplace |-> 1], <<x>>, 1), 2 * ninst + 1)

\* a + b = copy of a, then +=
Add ==
  \E x \in Live, y \in Live :
    Len(ctab[x].t) + Len(ctab[y].t) <= MaxTotalLen /\
    LET r == NextFree
        g == CPIAdd(ctab[x].t, ctab[x].f, ctab[y].t, ctab[y].f) IN
    Do([ctab EXCEPT ![r] = [k |-> "S", t |-> g[1], f |-> g[2]]],
       Ev("add", x, [other |-> y, inplace |-> 0], <<r>>, 0), 2 * ninst + 1)

Pad ==
  \E x \in Live, m \in {"ljust", "rjust", "center"}, ext \in {0, 1}, fl \in Alphabet :
    LET c == ctab[x] n == Len(c.t) r == NextFree IN
    \E width \in n..MaxTotalLen :
      LET g == CPPad(c.t, c.f, m, width, fl, ext = 1) IN
      Do([ctab EXCEPT ![r] = [k |-> "S", t |-> g[1], f |-> g[2]]],
         [Ev("pad", x, [m |-> m, width |-> width, fill |-> <<fl>>, extend |-> ext, inplace |-> 0], <<r>>, 0)
            EXCEPT !.o = [pyout |-> "ok", py |-> [t |-> "s", v |-> g[1]]]], 0)

\* clip(start, end, inplace=True): the receiver takes over text and table of its own slice
ClipIn ==
  \E x \in Live :
    LET c == ctab[x] n == Len(c.t) IN
    \E st \in OptBounds(n), en \in OptBounds(n) :
      LET g == CPGetItem(c.t, c.f, SliceIdx(st, n, 0), SliceIdx(en, n, n)) IN
      Do([ctab EXCEPT ![x] = [k |-> "S", t |-> g[1], f |-> g[2]]],
         Ev("clip", x, [start |-> st, stop |-> en, inplace |-> 1], <<x>>, 1), 0)

\* strip / lstrip / rstrip(chars) through the transcribed _strip, in place or not
Strip ==
  \E x \in Live, m \in {"strip", "lstrip", "rstrip"}, ch \in Alphabet, ip \in {0, 1} :
    (ip = 0 => Free # {}) /\
    LET c == ctab[x] r == IF ip = 1 THEN x ELSE NextFree
        g == CPStrip(c.t, c.f, <<ch>>, m \in {"strip", "lstrip"}, m \in {"strip", "rstrip"})
        \* (the library returns self when nothing is stripped in place: same table either way)
    IN Do([ctab EXCEPT ![r] = [k |-> "S", t |-> g[1], f |-> g[2]]],
          [Ev("strip", x, [m |-> m, chars |-> << <<ch>> >>, inplace |-> ip], <<r>>, ip)
             EXCEPT !.o = [pyout |-> "ok", py |-> [t |-> "s", v |-> g[1]]]], 0)

\* join(x, y) and join(x, y, x): copy of the first operand, += the others
Join ==
  \E x \in Live, y \in Live, third \in {0, 1} :
    LET items == IF third = 1 THEN <<x, y, x>> ELSE <<x, y>>
        r == NextFree
        g == CPJoinT([k \in DOMAIN items |-> <<ctab[items[k]].t, ctab[items[k]].f>>])
    IN Len(g[1]) <= MaxTotalLen /\
       Do([ctab EXCEPT ![r] = [k |-> "S", t |-> g[1], f |-> g[2]]],
          Ev("join", 0, [cls |-> "S", items |-> items, inplace |-> 0], <<r>>, 0), 6 * ninst + 6)

\* iteration: one register per character (s[0], s[1], ...)
FreeSeq == SortedSeq(Free)
Iterate ==
  \E x \in Live :
    LET c == ctab[x] n == Len(c.t) IN
    n >= 1 /\ n <= Cardinality(Free) /\
    LET regs == SubSeq(FreeSeq, 1, n)
        piece(k) == CPGetItem(c.t, c.f, k - 1, k)
    IN Do([r \in Regs |-> IF \E k \in 1..n : regs[k] = r
                          THEN LET k == CHOOSE q \in 1..n : regs[q] = r IN [k |-> "S", t |-> piece(k)[1], f |-> piece(k)[2]]
                          ELSE ctab[r]],
          Ev("iter", x, [inplace |-> 0], regs, 0), 0)

\* split(sep) on a one-letter separator: the pieces located and cut the way _split does it
Split ==
  \E x \in Live, ch \in Alphabet, m \in {"split", "rsplit"} :
    LET c == ctab[x]
        offs == IF m = "split" THEN SplitSep(c.t, <<ch>>, -1) ELSE RSplitSep(c.t, <<ch>>, -1)
        texts == OffsetsToTexts(c.t, offs)
        n == Len(texts)
    IN n <= Cardinality(Free) /\
       LET regs == SubSeq(FreeSeq, 1, n)
           rg == LocLoop(c.t, texts, 1, 0, 1)
           piece(k) == CPCut(c.t, c.f, rg[k][1], rg[k][2])
       IN Do([r \in Regs |-> IF \E k \in 1..n : regs[k] = r
                             THEN LET k == CHOOSE q \in 1..n : regs[q] = r IN [k |-> "S", t |-> piece(k)[1], f |-> piece(k)[2]]
                             ELSE ctab[r]],
             [Ev("split", x, [m |-> m, sep |-> << <<ch>> >>, maxsplit |-> -1, inplace |-> 0], regs, 0)
                EXCEPT !.o = [pyout |-> "ok", py |-> [t |-> "l", v |-> texts]]], 0)

\* replace(old, new) with a register as replacement (its own settings, reused for every match)
Replace ==
  \E x \in Live, y \in Live, c \in Alphabet, cnt \in {-1, 1} :
    LET cx == ctab[x] cy == ctab[y] r == NextFree
        g == CPReplace(cx.t, cx.f, <<c>>, "S", cy.t, cy.f, cnt)
    IN Len(g[1]) <= MaxTotalLen /\
       Do([ctab EXCEPT ![r] = [k |-> "S", t |-> g[1], f |-> g[2]]],
          [Ev("replace", x, [old |-> <<c>>, new |-> y, count |-> cnt, m |-> "replace", inplace |-> 0], <<r>>, 0)
             EXCEPT !.o = [pyout |-> "ok", py |-> [t |-> "s", v |-> g[1]]]], 4 * ninst + 8)

\* AnsiString(text with escape sequences), AnsiString(str(s)) and simplify() through the transcribed set_ansi_str
SgrBodies == {<< >>, <<48>>} \cup {TextTable[t] : t \in Palette} \cup {TextTable[a] \o <<SEMI>> \o TextTable[b] : a \in Palette, b \in Palette}
ParseItems == {<<c>> : c \in Alphabet} \cup {<<ESC, LBRK>> \o body \o <<LOWM>> : body \in SgrBodies}
ParseInputs == {a \o b \o c : a \in ParseItems, b \in ParseItems \cup {<< >>}, c \in ParseItems \cup {<< >>}}

NewParsed ==
  \E input \in ParseInputs :
    (\E i \in DOMAIN input : input[i] = ESC) /\
    LET r == NextFree g == CPSetAnsiStrFrom(input, ninst) IN
    Do([ctab EXCEPT ![r] = [k |-> "S", t |-> g[1], f |-> g[2]]],
       Ev("new", 0, [cls |-> "S", src |-> 0, text |-> input, S |-> << >>, inplace |-> 0], <<r>>, 0), 40)

Reparse ==
  \E x \in Live :
    LET r == NextFree g == CPSetAnsiStrFrom(CPRender(ctab[x].t, ctab[x].f, <<1, 0, 1>>), ninst) IN
    Do([ctab EXCEPT ![r] = [k |-> "S", t |-> g[1], f |-> g[2]]],
       Ev("reparse", x, [cls |-> "S", inplace |-> 0], <<r>>, 0), 40)

Simplify ==
  \E x \in Live :
    LET g == CPSetAnsiStrFrom(CPRender(ctab[x].t, ctab[x].f, <<1, 0, 1>>), ninst) IN
    Do([ctab EXCEPT ![x] = [k |-> "S", t |-> g[1], f |-> g[2]]],
       [Ev("simplify", x, [inplace |-> 1], << >>, 0)
          EXCEPT !.o = [pyout |-> "ok", parsable |-> IF TabParsable(g[2]) THEN 1 ELSE 0, q2 |-> << >>, rt |-> << >>]], 40)

\* assign_str with a text one shorter, equal or up to two longer
AssignStr ==
  \E x \in Live, nt \in TextsUpTo(MaxTotalLen) :
    LET c == ctab[x] g == CPAssign(c.t, c.f, nt) IN
    Len(nt) >= Len(c.t) - 1 /\ Len(nt) <= Len(c.t) + 2 /\
    Do([ctab EXCEPT ![x] = [k |-> "S", t |-> g[1], f |-> g[2]]],
       Ev("assign_str", x, [text |-> nt, inplace |-> 1], << >>, 0), 0)

\* find_settings through the transcribed index-table algorithm (C17 at the level of tables)
FindSettings ==
  \E x \in Live, S \in SettingLists, rev \in {0, 1} :
    LET c == ctab[x] n == Len(c.t) IN
    \E st \in OptBounds(n) \ {<< >>}, en \in OptBounds(n) :
      LET g == CPFindSettings(c.t, c.f, S, st, en, rev = 1) IN
      Do(ctab,
         [Ev("find_settings", x, [S |-> S, start |-> st, end |-> en, reverse |-> rev, inplace |-> 0], << >>, 0)
            EXCEPT !.o = [shape |-> 1, fs |-> g[1], fe |-> g[2]]], 0)

\* to_str under the 8 flag combinations; the rendering is a stuttering step of the tables
Render ==
  \E x \in Live, opt \in {0, 1}, rs \in {0, 1}, re \in {0, 1} :
    LET c == ctab[x] fl == <<opt, rs, re>> v == AbsOf(c) IN
    Do(ctab,
       [Ev("render", x, [how |-> "to_str", spec |-> << >>, flags |-> fl, drift |-> 0, inplace |-> 0], << >>, 0)
          EXCEPT !.o = [out |-> CPRender(c.t, c.f, fl),
                        valid |-> IF \A i \in DOMAIN v.s : \A k \in DOMAIN v.s[i] : ValidG(TextTable[v.s[i][k][2]]) THEN 1 ELSE 0,
                        parsable |-> IF TabParsable(c.f) THEN 1 ELSE 0]], 0)

\* Narrow: the first step only makes a second value (new, slice, copy); everything is possible afterwards
Next ==
  /\ depth < MaxDepth
  /\ IF Narrow /\ depth = 0 THEN Free # {} /\ (New \/ Slice \/ Copy)
     ELSE \/ (Free # {} /\ (New \/ Slice \/ Copy \/ Add \/ Pad \/ Replace))
          \/ (Free # {} /\ Join) \/ Iterate \/ Split \/ Strip \/ ClipIn
          \/ Apply \/ Remove \/ IAdd \/ Render \/ FindSettings \/ AssignStr
          \/ (WithParse /\ ((Free # {} /\ (NewParsed \/ Reparse)) \/ Simplify))

Spec == Init /\ [][Next]_cvars

---------------------------------------------------------------------------
\* the library's own consistency self-check holds in every reachable table
WF == \A r \in Regs : ctab[r].k = "N" \/ WFTab(ctab[r].t, ctab[r].f)
\* an object is referenced at most once per marker list and is never active twice
NoDup == \A r \in Regs : ctab[r].k = "N" \/
           LET it == Iter(ctab[r].f) IN
           /\ \A j \in DOMAIN it : \A a, b \in DOMAIN it[j][2] : a # b => it[j][2][a][1] # it[j][2][b][1]
           /\ \A k \in DOMAIN ctab[r].f : \A a, b \in DOMAIN ctab[r].f[k].rem : a # b => ctab[r].f[k].rem[a][1] # ctab[r].f[k].rem[b][1]

\* refinement: the abstract values before/after satisfy every contract clause (the listed properties)
FailingClauses(e, pre, post) ==
  LET cl == Clauses(e, pre, post) IN {cl[i][1] : i \in {j \in DOMAIN cl : ~cl[j][3]}}
Refines == [][FailingClauses(ev', AbsHeap(ctab), AbsHeap(ctab')) = {}]_cvars

\* tables of registers an operation may not change are untouched (stronger than the abstract frame clause)
TablesFramed == [][\A r \in Regs : (r \notin Range(ev'.res) /\ ~(ev'.a.inplace = 1 /\ r = ev'.r)) => ctab'[r] = ctab[r]]_cvars

View == <<ctab, depth>>
=============================================================================
