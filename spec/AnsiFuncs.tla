----------------------------- MODULE AnsiFuncs -----------------------------
(***************************************************************************)
(* Contracts of the function-shaped parts of the library:                  *)
(*   C18 parse_graphic_sequence / settings_to_dict                         *)
(*   C19 ParsedAnsiControlSequenceString and the cursor/erase/scroll       *)
(*       helpers                                                           *)
(*   C15 AnsiSetting.valid / .parsable                                     *)
(* Events of these operations do not touch the heap.                       *)
(***************************************************************************)
EXTENDS AnsiSegs, Settings

IsSubseq(a, b) ==      \* a is a (not necessarily contiguous) subsequence of b
  LET RECURSIVE Sub(_, _)
      Sub(i, j) == IF i > Len(a) THEN TRUE
                   ELSE IF j > Len(b) THEN FALSE
                   ELSE IF a[i] = b[j] THEN Sub(i + 1, j + 1) ELSE Sub(i, j + 1)
  IN Sub(1, 1)

RECURSIVE FlatSeq(_, _)
FlatSeq(ss, i) == IF i > Len(ss) THEN << >> ELSE ss[i] \o FlatSeq(ss, i + 1)

\* the parameter lists of the settings with the given text ids, concatenated
ParamsOfTids(ids) == FlatSeq([k \in DOMAIN ids |-> ParamList(TextTable[ids[k]]).ps], 1)
AllParamTexts(ids) == \A k \in DOMAIN ids : ParamList(TextTable[ids[k]]).ok

---------------------------------------------------------------------------
(***************************************************************************)
(* C18.  e.a.codes : Seq(Nat) the integer tokens of the input (the driver  *)
(* passes them as ';'-joined str, list of int or list of str: e.a.enc);    *)
(* e.a.adderr; e.o.res : text ids of the returned settings;                *)
(* e.o.red : text ids of the values of settings_to_dict(result).           *)
(***************************************************************************)
\* (a code -1 in the logged list stands for an EMPTY parameter, which a terminal reads as its default value 0)
PgsC(e) ==
  LET ps == [i \in DOMAIN e.a.codes |-> IF e.a.codes[i] = -1 THEN 0 ELSE e.a.codes[i]]
      ints == SelectSeq(e.a.codes, LAMBDA c : c # -1)
      r == TermEffs(ps)
      want == TermRun(DefaultState, r.effs)
  IN Cl("C18.defined", TRUE, e.out = "ok")
  \o IF e.out # "ok" THEN None ELSE
     LET res == e.o.res IN
        Cl("C18.empty_is_reset", ps = << >>, ps = << >> => (Len(res) = 1 /\ TextTable[res[1]] = <<48>>))
     \o Cl("C18.state_by_fold", r.ok /\ ps # << >>,
           (r.ok /\ ps # << >> /\ e.a.adderr = 0) =>
              (/\ \A k \in DOMAIN res : Sem[res[k]].cls \in {"single", "multi"}
               /\ DisplayIds(res) = want))
     \o Cl("C18.state_by_settings_to_dict", r.ok /\ ps # << >>,
           (r.ok /\ ps # << >> /\ e.a.adderr = 0) => DisplayIds(e.o.red) = want)
     \o Cl("C18.groups_intact", r.ok /\ ps # << >> /\ \E i \in DOMAIN r.effs : Len(r.effs[i][2]) >= 3,
           (r.ok /\ ps # << >> /\ e.a.adderr = 0) =>
              /\ AllParamTexts(res)
              /\ \A i \in DOMAIN r.effs : Len(r.effs[i][2]) >= 3 =>
                    \E k \in DOMAIN res : ParamList(TextTable[res[k]]).ps = r.effs[i][2]
              /\ \A k \in DOMAIN res : LET q == ParamList(TextTable[res[k]]).ps IN Len(q) = 1 \/ SingleGroup(q))
     \o Cl("C18.erroneous_kept", e.a.adderr = 1 /\ ps # << >>,
           (e.a.adderr = 1 /\ ps # << >>) => (AllParamTexts(res) /\ IsSubseq(ints, ParamsOfTids(res))))
     \o Cl("C08.pgs_argument_unchanged", e.a.enc # "str", e.o.args_same = 1)

\* settings_to_dict(settings, old): e.a.S text ids, e.a.old text ids of the old dict's values,
\* e.o.dict = << <<groupname, tid>> ... >> of the result, e.o.args_same = arguments unchanged
S2dC(e) ==
  LET S == e.a.S old == e.a.old
      claim == (\A k \in DOMAIN S : Sem[S[k]].cls \in {"single"} \/ TextTable[S[k]] = <<48>>)
               /\ (\A k \in DOMAIN old : Sem[old[k]].cls = "single")
  IN Cl("C18.s2d_defined", TRUE, e.out = "ok")
  \o IF e.out # "ok" THEN None ELSE
     LET d == e.o.dict
         vals == [k \in DOMAIN d |-> d[k][2]]
     IN Cl("C18.s2d_state", claim /\ S # << >>,
           claim => DisplayIds(vals) = TermRun(DisplayIds(old), EffsOfIds(S, 1)))
     \o Cl("C18.s2d_keys", claim /\ d # << >>,
           claim => \A k \in DOMAIN d : Sem[d[k][2]].effs # << >> /\ Sem[d[k][2]].effs[1][1] = d[k][1])
     \o Cl("C18.s2d_args_unchanged", TRUE, e.o.args_same = 1)

---------------------------------------------------------------------------
\* C19
PcsC(e) ==
  LET s == e.a.s
      want == ParseCS(s, e.a.allow = 1, e.a.acc)
      claim == InClaimCS(s)
  IN Cl("C19.defined", TRUE, e.out = "ok")
  \o IF e.out # "ok" THEN None ELSE
        Cl("C19.unformatted", claim /\ want.seqs # << >>, claim => e.o.unf = want.text)
     \o Cl("C19.sequences", claim /\ want.seqs # << >>, claim => e.o.seqs = want.seqs)
     \o Cl("C19.removal_points", e.o.seqs # << >>, SeqsOrdered(e.o.seqs, Len(e.o.unf)))
     \o Cl("C19.lossless", e.o.seqs # << >>, Reinsert(e.o.unf, e.o.seqs) = s)
     \o Cl("C19.formatted_str", e.o.seqs # << >>, e.o.fmt = <<1>> \o s)
     \o Cl("C19.str", e.o.seqs # << >>, e.o.str = <<1>> \o s)
     \o Cl("C19.repr", e.o.seqs # << >>, e.o.repr = <<1>> \o s)

HelperFinal(name) ==
  CASE name = "cursor_up_str" -> 65 [] name = "cursor_down_str" -> 66 [] name = "cursor_forward_str" -> 67
    [] name = "cursor_backward_str" -> 68 [] name = "cursor_back_str" -> 68
    [] name = "cursor_next_line_str" -> 69 [] name = "cursor_previous_line_str" -> 70
    [] name = "cursor_horizontal_absolute_str" -> 71 [] name = "cursor_position_str" -> 72
    [] name = "erase_in_display_str" -> 74 [] name = "erase_in_line_str" -> 75
    [] name = "scroll_up_str" -> 83 [] name = "scroll_down_str" -> 84

RECURSIVE Decimal(_)
Decimal(n) == IF n < 10 THEN <<48 + n>> ELSE Decimal(n \div 10) \o <<48 + (n % 10)>>
RECURSIVE JoinSemi(_, _)
JoinSemi(ns, i) == IF i > Len(ns) THEN << >>
                   ELSE Decimal(ns[i]) \o (IF i < Len(ns) THEN <<SEMI>> ELSE << >>) \o JoinSemi(ns, i + 1)

HelperC(e) ==
  LET want == <<ESC, LBRK>> \o JoinSemi(e.a.args, 1) \o <<HelperFinal(e.a.name)>> IN
     Cl("C19.helper_defined", TRUE, e.out = "ok")
  \o IF e.out # "ok" THEN None ELSE
        Cl("C19.helper_sequence", TRUE, e.o.res = want)
     \o Cl("C19.helper_parses", TRUE,
           LET p == ParseCS(e.o.res, TRUE, << >>) IN
           p.text = << >> /\ Len(p.seqs) = 1 /\ p.seqs[1][3] = <<HelperFinal(e.a.name)>>)
     \o Cl("C19.helper_parsed_by_impl", TRUE, e.o.unf = << >> /\ Len(e.o.seqs) = 1)

---------------------------------------------------------------------------
\* C15: AnsiSetting(text).valid / .parsable, each read twice and in both orders (the flags are cached)
ValidG(text) == \A k \in DOMAIN text : ~IsFinal(text[k])
ParsableG(text) == SemOf(text).cls = "single"
\* texts on which int() is more liberal than "digits": spaces, signs, underscores, non-ASCII digits
ParsableInClaim(text) == \A k \in DOMAIN text : text[k] \in 33..126 /\ text[k] \notin {43, 45}

AsetC(e) ==
  LET text == e.a.text IN
     Cl("C15.defined", TRUE, e.out = "ok")
  \o IF e.out # "ok" THEN None ELSE
        Cl("C15.valid_exact", TRUE, \A k \in DOMAIN e.o.valid : (e.o.valid[k] = 1) = ValidG(text))
     \o Cl("C15.parsable_exact", ParsableInClaim(text),
           ParsableInClaim(text) => \A k \in DOMAIN e.o.parsable : (e.o.parsable[k] = 1) = ParsableG(text))
     \o Cl("C15.parsable_implies_valid", TRUE, \A k \in DOMAIN e.o.parsable : e.o.parsable[k] = 1 => ValidG(text))
---------------------------------------------------------------------------
(***************************************************************************)
(* C14.  e.a.leaves: the flat sequence of leaves of the settings argument  *)
(* (see Settings.tla); e.a.selfref = 1 when the harness made a list        *)
(* contain itself; e.a.badtype = 1 when it inserted an unsupported object. *)
(* e.o.res: text ids reported for the (single) character of                *)
(* AnsiString('x', argument); e.o.q its rendering; e.o.rep_q the rendering *)
(* of the class representative built from the expected texts.              *)
(***************************************************************************)
LeafDen(l) ==
  CASE l.k = "name" ->
         IF l.known = 0 THEN [err |-> "raise:ValueError", texts |-> << >>, claim |-> TRUE, doc |-> FALSE]
         ELSE [err |-> "ok", texts |-> [i \in DOMAIN l.member |-> TextTable[l.member[i]]],
               claim |-> Canon(l.v) = l.mname, doc |-> TRUE]
    [] l.k = "ints" ->
         IF \E i \in DOMAIN l.v : l.v[i] < 0 THEN [err |-> "raise:ValueError", texts |-> << >>, claim |-> TRUE, doc |-> FALSE]
         ELSE [err |-> "ok", texts |-> GroupInts(l.v, 1), claim |-> IntsInClaim(l.v, 1),
               doc |-> LET g == GroupInts(l.v, 1) IN \A i \in DOMAIN g : SemOf(g[i]).cls = "single"]
    [] l.k = "verb" ->
         IF l.v = << >> THEN [err |-> "raise:ValueError", texts |-> << >>, claim |-> TRUE, doc |-> FALSE]
         ELSE [err |-> "ok", texts |-> << l.v >>, claim |-> TRUE, doc |-> FALSE]
    [] l.k = "rgbs" ->
         LET p == ParseColourString(l.v) IN
         IF p.kind = "none" \/ ~p.ok THEN [err |-> "raise:ValueError", texts |-> << >>, claim |-> p.kind = "none" \/ p.claim, doc |-> FALSE]
         ELSE [err |-> "ok", texts |-> IF p.kind = "rgb" THEN RgbTexts(p.comp, p.args) ELSE C256Texts(p.comp, p.args[1]),
               claim |-> p.claim, doc |-> TRUE]
    [] l.k = "rgbc" ->
         [err |-> "ok", texts |-> IF l.fn = "rgb" THEN RgbTexts(l.comp, l.args) ELSE C256Texts(l.comp, l.args[1]),
          claim |-> (l.fn = "c256" => l.args[1] <= 255 /\ l.args[1] >= 0)
                    /\ (l.fn = "rgb" /\ Len(l.args) = 1 => l.args[1] >= 0 /\ l.args[1] <= 16777215),
          doc |-> TRUE]

RECURSIVE CatTexts(_, _)
CatTexts(dens, i) == IF i > Len(dens) THEN << >> ELSE dens[i].texts \o CatTexts(dens, i + 1)

\* integer codes are grouped after flattening: runs of integer leaves that follow one another (at whatever nesting
\* level each of them stands) are one run
RECURSIVE MergeInts(_, _)
MergeInts(ls, i) ==
  IF i > Len(ls) THEN << >>
  ELSE IF i < Len(ls) /\ ls[i].k = "ints" /\ ls[i + 1].k = "ints"
       THEN MergeInts(SubSeq(ls, 1, i - 1) \o << [ls[i] EXCEPT !.v = ls[i].v \o ls[i + 1].v] >> \o SubSeq(ls, i + 2, Len(ls)), i)
       ELSE <<ls[i]>> \o MergeInts(ls, i + 1)

ScrubC(e) ==
  LET leaves == MergeInts(e.a.leaves, 1)
      dens == [i \in DOMAIN leaves |-> LeafDen(leaves[i])]
      claim == \A i \in DOMAIN dens : dens[i].claim
      errs == {dens[i].err : i \in DOMAIN dens} \ {"ok"}
      wantErr == IF e.a.badtype = 1 THEN "raise:TypeError"
                 ELSE IF e.a.selfref = 1 THEN "raise:ValueError"
                 ELSE IF errs # {} THEN "raise:ValueError" ELSE "ok"
      want == CatTexts(dens, 1)
  IN Cl("C14.outcome", claim, claim => e.out = wantErr)
  \o IF e.out # "ok" \/ wantErr # "ok" \/ ~claim \/ e.a.empty = 1 THEN None ELSE
     LET got == [i \in DOMAIN e.o.res |-> TextTable[e.o.res[i]]] IN
        Cl("C14.same_settings", TRUE, got = want)
     \o Cl("C14.same_rendering", TRUE, e.o.q = e.o.rep_q)
     \o Cl("C15.documented_forms_parsable", \E i \in DOMAIN dens : dens[i].doc,
           (\A i \in DOMAIN dens : dens[i].doc) =>
              (e.o.valid = 1 /\ e.o.parsable = 1 /\ \A i \in DOMAIN e.o.res : Sem[e.o.res[i]].cls = "single"))
=============================================================================
