------------------------------ MODULE AnsiOps ------------------------------
(***************************************************************************)
(* Operation contracts: the listed properties as relations between the     *)
(* heap before an event (pre), the event (operation, arguments, outcome,   *)
(* observations) and the heap after it (post).  Each clause is one         *)
(* sentence of a property and carries the property id in its name.         *)
(*                                                                         *)
(* A clause is <<name, nontrivial, holds>>.  "nontrivial" marks            *)
(* evaluations whose antecedent was not vacuous (counted in the evidence). *)
(***************************************************************************)
EXTENDS AnsiText

---------------------------------------------------------------------------
\* Clauses every event is subject to (C08 frames, C09 outcomes, C13 payload)
OkOutcomes == {"ok", "raise:TypeError", "raise:ValueError"}

Allowed(e, pre) ==
  {e.res[i] : i \in {j \in DOMAIN e.res : pre[e.res[j]].k = "N"}}
    \cup (IF e.a.inplace = 1 THEN {e.r} ELSE {})

IsMatching(e) == e.op \in {"format_matching", "unformat_matching"}

Common(e, pre, post) ==
     Cl("C09.no_timeout", TRUE, e.out # "timeout")
  \o Cl("C09.outcome", e.out # "ok",
        \/ e.out \in OkOutcomes
        \/ (e.op = "index" /\ e.out = "raise:IndexError")
        \/ ("strout" \in DOMAIN e.o /\ e.out = e.o.strout)
        \/ ("pyout" \in DOMAIN e.o /\ e.out = e.o.pyout))      \* "the error str itself raises for the same call"
  \o Cl("C09.clean_fail", e.out # "ok", e.out # "ok" => e.upd = << >>)
  \o Cl("C09.consistent", e.upd # << >>, \A i \in DOMAIN e.upd : e.upd[i][2].b = 0)
  \o Cl("C08.frame", e.upd # << >>, \A i \in DOMAIN e.upd : e.upd[i][1] \in Allowed(e, pre))
  \o Cl("C08.inplace_returns_self", e.a.inplace = 1 /\ Len(e.res) = 1 /\ ~IsMatching(e),
        (e.out = "ok" /\ e.a.inplace = 1 /\ Len(e.res) = 1 /\ ~IsMatching(e)) => e.same = 1)
  \o Cl("C08.result_not_aliased", e.a.inplace = 0 /\ Len(e.res) >= 1,
        (e.out = "ok" /\ e.a.inplace = 0) =>
           \A i \in DOMAIN e.res : pre[e.res[i]].k = "N" \/ post[e.res[i]].k \in {"A", "P"})
  \o Cl("inv.shape", e.upd # << >>, \A i \in DOMAIN e.upd : WellShaped(e.upd[i][2]))
  \o Cl("C13.payload", \E i \in DOMAIN e.upd : e.upd[i][2].k = "A",
        \A i \in DOMAIN e.upd : e.upd[i][2].k = "A" => e.upd[i][2].p = e.upd[i][2].q)

RecvKind(e, pre) == pre[e.r].k

---------------------------------------------------------------------------
\* Construction, copies, conversions
\* tokens of an input string with every non-SGR token spelled out as characters
RECURSIVE FlatToks(_, _)
FlatToks(toks, i) ==
  IF i > Len(toks) THEN << >>
  ELSE IF toks[i][1] \in {"c", "sgr"} THEN <<toks[i]>> \o FlatToks(toks, i + 1)
  ELSE [k \in DOMAIN toks[i][2] |-> <<"c", <<toks[i][2][k]>> >>] \o FlatToks(toks, i + 1)

NewC(e, pre, post) ==
  LET w == post[e.res[1]]
      fromReg == e.a.src # 0
      base == IF fromReg THEN << <<"reg", e.a.src, 0, Len(pre[e.a.src].t)>> >>
              ELSE << <<"lit", e.a.text, "none", 0, 0>> >>
      S == e.a.S
      exp == ExpS(base, pre, 1)
      hasEsc == ~fromReg /\ ~NoEsc(e.a.text)
  IN IF e.out # "ok" THEN Cl("C13.new_defined", TRUE, FALSE)
     ELSE IF hasEsc THEN
       LET toks == FlatToks(Tokens(e.a.text), 1)
           claim == InClaimCS(e.a.text) /\ \A i \in DOMAIN toks : toks[i][1] = "sgr" => SgrStrictOK(toks[i][2])
           run == RunToks(toks, 1, DefaultState)
           n == Len(run.chars)
       IN Cl("C13.new_kind", TRUE, w.k = e.a.cls)
       \o Cl("C02.text", claim, claim => w.t = [i \in 1..n |-> run.chars[i][1]])
       \o Cl("C02.display", claim /\ S = << >> /\ HasSgr(toks),
             (claim /\ S = << >>) =>
                /\ Len(w.s) = n
                /\ ValReadable(w)
                /\ \A i \in 1..n : Display(w.s[i]) = run.chars[i][2])
     ELSE
     Cl("C13.new_kind", TRUE, w.k = e.a.cls)
  \o Cl("C13.new_text", TRUE, TextIs(w, base, pre))
  \o Cl("C02.plain_unformatted", ~fromReg /\ S = << >>, (~fromReg /\ S = << >>) => NoStyle(w))
  \o Cl("C13.new_gains", S # << >> \/ fromReg,
        /\ Len(w.s) = Len(exp)
        /\ \A k \in DOMAIN exp : BagPlus(Tids(exp[k]), S, Tids(w.s[k])))
  \o Cl("C13.new_keeps_order", fromReg,
        /\ Len(w.s) = Len(exp)
        /\ \A k \in DOMAIN exp : EquivIds(SelectSeq(Tids(w.s[k]), LAMBDA t : t \notin Range(S)),
                                          SelectSeq(Tids(exp[k]), LAMBDA t : t \notin Range(S))))
  \o Cl("C13.new_top_display", S # << >> /\ exp # << >> /\ AllSingleIds(S),
        (S # << >> /\ AllSingleIds(S) /\ Len(w.s) = Len(exp)) =>
          \A k \in DOMAIN exp :
            ((\A j \in 2..k : \A x \in Range(Insts(exp[j])) : x \in Range(Insts(exp[j-1]))) /\ AllSingle(w.s[k]))
              => \A g \in TouchedBy(S) : Display(w.s[k])[g] = DisplayIds(S)[g])

CopyC(e, pre, post) ==
  LET v == pre[e.r] w == post[e.res[1]] IN
  IF e.out # "ok" THEN Cl("C08.copy_defined", TRUE, FALSE) ELSE
     Cl("C08.copy_equal", HasStyle(v), EquivVal(v, w))
  \o Cl("C08.copy_renders_same", HasStyle(v), v.q = w.q)
  \o Cl("C08.copy_kind", TRUE, w.k = v.k)

---------------------------------------------------------------------------
\* C04: slicing, integer index, clip, iteration
SliceSegs(r, n, start, stop) ==
  LET lo == NormLo(start, n) hi == NormHi(stop, n)
  IN  << <<"reg", r, lo, MaxOf(lo, hi)>> >>

SliceC(e, pre, post) ==
  LET v == pre[e.r] n == Len(v.t)
      segs == SliceSegs(e.r, n, e.a.start, e.a.stop)
      nonempty == segs[1][4] > segs[1][3]
  IN Cl("C04.defined", TRUE, e.out = "ok")
  \o IF ~HasResult(e) THEN None ELSE
     LET w == ResultOf(e, post) IN
        Cl("C04.text", nonempty, TextIs(w, segs, pre))
     \o Cl("C04.sty", nonempty /\ HasStyle(v), StyIs(w, segs, pre))
     \o KindC(e, pre, post, v.k)

IndexC(e, pre, post) ==
  LET v == pre[e.r] n == Len(v.t) i == e.a.i
      valid == -n <= i /\ i < n
      j == IF i < 0 THEN n + i ELSE i
      segs == << <<"reg", e.r, j, j + 1>> >>
  IN IF ~valid THEN Cl("C09.index_error", TRUE, e.out = "raise:IndexError")
     ELSE Cl("C04.index_defined", TRUE, e.out = "ok")
       \o IF ~HasResult(e) THEN None ELSE
          LET w == ResultOf(e, post) IN
             Cl("C04.index_text", TRUE, TextIs(w, segs, pre))
          \o Cl("C04.index_sty", HasStyle(v), StyIs(w, segs, pre))
          \o KindC(e, pre, post, v.k)

IterC(e, pre, post) ==
  LET v == pre[e.r] n == Len(v.t) IN
     Cl("C04.iter_defined", TRUE, e.out = "ok")
  \o IF e.out # "ok" THEN None ELSE
        Cl("C04.iter_count", TRUE, Len(e.res) = n)
     \o Cl("C04.iter_items", HasStyle(v),
           Len(e.res) = n /\
           \A k \in 1..n : LET segs == << <<"reg", e.r, k - 1, k>> >> w == post[e.res[k]] IN
                           TextIs(w, segs, pre) /\ StyIs(w, segs, pre))
     \o KindC(e, pre, post, v.k)

---------------------------------------------------------------------------
\* C05: concatenation
ConcatSegs(regs, pre) == [i \in DOMAIN regs |-> <<"reg", regs[i], 0, Len(pre[regs[i]].t)>>]

ConcatC(e, pre, post, regs, want) ==
  LET segs == ConcatSegs(regs, pre)
      n1 == Len(pre[regs[1]].t)
      total == Len(ExpT(segs, pre, 1))
      styled == \E i \in DOMAIN regs : HasStyle(pre[regs[i]])
      \* a plain str operand containing escape sequences is parsed by the library: outside this claim
      plainEsc == \E i \in DOMAIN regs : pre[regs[i]].k = "P" /\ ~NoEsc(pre[regs[i]].t)
      \* ... but each such operand is parsed ON ITS OWN (join(x1..xn) = ((x1 + x2) + ...) + xn): its characters show what a
      \* terminal makes of that operand alone
      IsEscP(i) == pre[regs[i]].k = "P" /\ ~NoEsc(pre[regs[i]].t)
      ParsedOf(i) == RunToks(FlatToks(Tokens(pre[regs[i]].t), 1), 1, DefaultState).chars
      escClaim == \A i \in DOMAIN regs : IsEscP(i) =>
                     (InClaimCS(pre[regs[i]].t) /\
                      LET tk == Tokens(pre[regs[i]].t) IN \A j \in DOMAIN tk : tk[j][1] = "sgr" => SgrStrictOK(tk[j][2]))
      OperandLen(i) == IF IsEscP(i) THEN Len(ParsedOf(i)) ELSE Len(pre[regs[i]].t)
      RECURSIVE OffsetOf(_)
      OffsetOf(i) == IF i = 1 THEN 0 ELSE OffsetOf(i - 1) + OperandLen(i - 1)
  IN Cl("C05.defined", TRUE, e.out = "ok")
  \o IF ~HasResult(e) THEN None
     ELSE IF plainEsc THEN
       LET w == ResultOf(e, post) IN
       Cl("C05.plain_escape_operands", escClaim,
          escClaim =>
            /\ Len(w.t) = OffsetOf(Len(regs)) + OperandLen(Len(regs))
            /\ Len(w.s) = Len(w.t)
            /\ \A i \in DOMAIN regs :
                 IF IsEscP(i)
                 THEN LET pc == ParsedOf(i) IN
                      \A k \in DOMAIN pc : /\ w.t[OffsetOf(i) + k] = pc[k][1]
                                            /\ (\A q \in DOMAIN w.s[OffsetOf(i) + k] : Sem[w.s[OffsetOf(i) + k][q][2]].cls # "other")
                                            /\ Display(w.s[OffsetOf(i) + k]) = pc[k][2]
                 ELSE LET v == pre[regs[i]] IN
                      \A k \in DOMAIN v.t : w.t[OffsetOf(i) + k] = v.t[k] /\ Equiv(w.s[OffsetOf(i) + k], v.s[k]))
     ELSE
     LET w == ResultOf(e, post) IN
        Cl("C05.text", total > 0, TextIs(w, segs, pre))
     \o Cl("C05.left_sty", styled /\ n1 > 0, StyIsOn(w, segs, pre, 1, n1))
     \o Cl("C05.right_sty", styled /\ total > n1, StyIsOn(w, segs, pre, n1 + 1, total))
     \o (IF e.tag = "probe_closed"
         THEN Cl("C04.closed", HasStyle(pre[regs[1]]), StyIsOn(w, segs, pre, n1 + 1, total))
         ELSE None)
     \o (IF e.tag = "probe_cut_closed"     \* the left operand is the result of cutting a tail off (clip/slice/strip/removesuffix/assign_str)
         THEN Cl("C04.closed", HasStyle(pre[regs[1]]), StyIsOn(w, segs, pre, n1 + 1, total))
           \o Cl("C11.closed", HasStyle(pre[regs[1]]), StyIsOn(w, segs, pre, n1 + 1, total))
         ELSE None)
     \o (IF e.tag = "probe_pad_closed"
         THEN Cl("C12.closed", HasStyle(pre[regs[1]]), StyIsOn(w, segs, pre, n1 + 1, total))
         ELSE None)
     \o KindC(e, pre, post, want)

---------------------------------------------------------------------------
\* C06: apply_formatting
ApplyC(e, pre, post) ==
  LET v == pre[e.r] n == Len(v.t)
      lo == NormLo(e.a.start, n) hi == NormHi(e.a.end, n)
      S == e.a.S
      empty == S = << >> \/ hi <= lo
      InR(i) == ~empty /\ lo < i /\ i <= hi            \* i is 1-based
      Begins(j) == \E x \in Range(Insts(v.s[j])) : x \notin Range(Insts(v.s[j-1]))
      TopClaim(i) == \A j \in (lo + 2)..i : ~Begins(j)
      dS == DisplayIds(S)
      tS == TouchedBy(S)
      Sok == AllSingleIds(S)
  IN Cl("C06.defined", TRUE, e.out = "ok")
  \o IF ~HasResult(e) THEN None ELSE
     LET w == ResultOf(e, post)
         shape == Len(w.s) = n /\ Len(w.t) = n
     IN
        Cl("C06.text", TRUE, w.t = v.t)
     \o Cl("C06.noop", empty, empty => (shape /\ \A i \in 1..n : Equiv(w.s[i], v.s[i])))
     \o Cl("C06.outside", ~empty /\ \E i \in 1..n : ~InR(i) /\ v.s[i] # << >>,
           shape /\ \A i \in 1..n : ~InR(i) => Equiv(w.s[i], v.s[i]))
     \o Cl("C06.inside_gains", ~empty,
           shape /\ \A i \in 1..n : InR(i) => BagPlus(Tids(v.s[i]), S, Tids(w.s[i])))
     \o Cl("C06.bottom_display",
           e.a.top = 0 /\ Sok /\ \E i \in 1..n : InR(i) /\ AllSingle(v.s[i])
                                     /\ TouchedBy(Tids(v.s[i])) \cap tS # {},
           (e.a.top = 0 /\ Sok /\ shape) =>
             \A i \in 1..n : (InR(i) /\ AllSingle(v.s[i]) /\ AllSingle(w.s[i])) =>
                LET dv == Display(v.s[i]) dw == Display(w.s[i]) tv == TouchedBy(Tids(v.s[i])) IN
                /\ \A g \in tv : dw[g] = dv[g]
                /\ \A g \in tS \ tv : dw[g] = dS[g])
     \o Cl("C06.top_display",
           e.a.top = 1 /\ Sok /\ \E i \in 1..n : InR(i) /\ TopClaim(i) /\ AllSingle(v.s[i])
                                     /\ TouchedBy(Tids(v.s[i])) \cap tS # {},
           (e.a.top = 1 /\ Sok /\ shape) =>
             \A i \in 1..n : (InR(i) /\ TopClaim(i) /\ AllSingle(w.s[i])) =>
                LET dw == Display(w.s[i]) IN \A g \in tS : dw[g] = dS[g])
     \o KindC(e, pre, post, v.k)

---------------------------------------------------------------------------
\* C07: remove_formatting / clear_formatting
RemoveC(e, pre, post) ==
  LET v == pre[e.r] n == Len(v.t)
      lo == NormLo(e.a.start, n) hi == NormHi(e.a.end, n)
      all == e.a.all = 1
      Sel == Range(e.a.Sel)
      empty == hi <= lo \/ (~all /\ Sel = {})
      InR(i) == ~empty /\ lo < i /\ i <= hi
      Keep(ids) == IF all THEN << >> ELSE SelectSeq(ids, LAMBDA t : t \notin Sel)
      Hit(i) == all \/ \E k \in DOMAIN v.s[i] : v.s[i][k][2] \in Sel
  IN Cl("C07.defined", TRUE, e.out = "ok")
  \o IF ~HasResult(e) THEN None ELSE
     LET w == ResultOf(e, post)
         shape == Len(w.s) = n /\ Len(w.t) = n
     IN
        Cl("C07.text", TRUE, w.t = v.t)
     \o Cl("C07.noop", empty /\ HasStyle(v), empty => (shape /\ \A i \in 1..n : Equiv(w.s[i], v.s[i])))
     \o Cl("C07.inside", \E i \in 1..n : InR(i) /\ v.s[i] # << >> /\ Hit(i),
           shape /\ \A i \in 1..n : InR(i) => EquivIds(Tids(w.s[i]), Keep(Tids(v.s[i]))))
     \o Cl("C07.outside", ~empty /\ \E i \in 1..n : ~InR(i) /\ v.s[i] # << >>,
           shape /\ \A i \in 1..n : ~InR(i) => Equiv(w.s[i], v.s[i]))
     \o Cl("C07.outside_display", ~empty /\ \E i \in 1..n : ~InR(i) /\ Len(v.s[i]) >= 2,
           shape => \A i \in 1..n : (~InR(i) /\ AllSingle(v.s[i]) /\ AllSingle(w.s[i]))
                                       => Display(w.s[i]) = Display(v.s[i]))
     \o KindC(e, pre, post, v.k)

ClearC(e, pre, post) ==
  LET v == pre[e.r] IN
     Cl("C07.clear_defined", TRUE, e.out = "ok")
  \o IF ~HasResult(e) THEN None ELSE
     LET w == ResultOf(e, post) IN
        Cl("C07.clear_text", TRUE, w.t = v.t)
     \o Cl("C07.clear_all", HasStyle(v), Len(w.s) = Len(v.t) /\ NoStyle(w))
     \o KindC(e, pre, post, v.k)

---------------------------------------------------------------------------
\* C01: rendering (str(), to_str() with the 8 flag combinations, format() with an empty spec)
RenderC(e, pre, post) ==
  LET v == pre[e.r]
      fl == e.a.flags                         \* <<optimize, reset_start, reset_end>>
  IN Cl("C01.defined", TRUE, e.out = "ok")
  \o IF e.out # "ok" \/ e.a.spec # << >> THEN None ELSE
     LET out == e.o.out
         toks == Tokens(out)
         claim == ValAllSingle(v) /\ NoEsc(v.t)
         run0 == RunToks(toks, 1, DefaultState)
         runD == RunToks(toks, 1, DirtyState)
         firstReset == /\ toks # << >> /\ toks[1][1] = "sgr"
                       /\ LET r == SgrRead(toks[1][2]) IN r.ok /\ r.effs # << >> /\ r.effs[1][1] = "reset"
     IN Cl("C01.wellformed", claim /\ HasSgr(toks), claim => (ToksClean(toks) /\ ToksReadable(toks)))
     \o Cl("C01.text", claim, claim => CharsOf(toks) = v.t)
     \o Cl("C01.display", claim /\ HasStyle(v), claim => Shown(run0, v))
     \o Cl("C01.reset_start_begins", fl[2] = 1 /\ claim, (fl[2] = 1 /\ claim) => firstReset)
     \o Cl("C01.reset_start_independent", fl[2] = 1 /\ claim /\ HasStyle(v), (fl[2] = 1 /\ claim) => Shown(runD, v))
     \o Cl("C01.reset_end_default", fl[3] = 1 /\ claim /\ HasSgr(toks),
           (fl[3] = 1 /\ claim /\ HasSgr(toks)) =>
              (run0.fin = DefaultState /\ (fl[2] = 1 => runD.fin = DefaultState)))
     \o Cl("C15.strip", UsesParamOnly(v) /\ NoEsc(v.t) /\ HasStyle(v),
           (UsesParamOnly(v) /\ NoEsc(v.t) /\ e.o.valid = 1) => StripSgr(out) = v.t)
     \o Cl("C15.valid_conj", HasStyle(v),
           (e.o.valid = 1) = (\A i \in DOMAIN v.s : \A k \in DOMAIN v.s[i] : ValidG(TextTable[v.s[i][k][2]])))
     \o Cl("C15.parsable_conj", HasStyle(v),
           (\A i \in DOMAIN v.s : \A k \in DOMAIN v.s[i] : ParsableInClaim(TextTable[v.s[i][k][2]])) =>
              ((e.o.parsable = 1) = ValAllSingle(v)))
     \o Cl("C15.verbatim_intact", UsesParamOnly(v) /\ NoEsc(v.t) /\ HasStyle(v) /\ (fl[1] = 0 \/ ~ValAllSingle(v)),
           (UsesParamOnly(v) /\ NoEsc(v.t) /\ e.o.valid = 1 /\ (fl[1] = 0 \/ ~ValAllSingle(v))) =>
              \A i \in DOMAIN v.s : \A k \in DOMAIN v.s[i] :
                 \E j \in DOMAIN toks : toks[j][1] = "sgr" /\ OccursIn(TextTable[v.s[i][k][2]], toks[j][2]))

---------------------------------------------------------------------------
\* C03: render / re-parse round trip and simplify()
ReparseC(e, pre, post) ==
  LET v == pre[e.r] IN
     Cl("C03.reparse_defined", TRUE, e.out = "ok")
  \o IF e.out # "ok" THEN None ELSE
     LET w == post[e.res[1]]
         claim == ValAllSingle(v) /\ NoEsc(v.t)     \* (e.a.opt = 0: AnsiString(s.to_str(optimize=False)), same claim by C01 + C02)
     IN Cl("C03.roundtrip_text", claim, claim => w.t = v.t)
     \o Cl("C03.roundtrip_display", claim /\ HasStyle(v), claim => (ValReadable(w) /\ SameDisplay(v, w)))

SimplifyC(e, pre, post) ==
  LET v == pre[e.r] IN
     Cl("C03.simplify_defined", TRUE, e.out = "ok")
  \o IF ~HasResult(e) THEN None ELSE
     LET w == ResultOf(e, post)
         claim == ValReadable(v) /\ NoEsc(v.t)
     IN Cl("C03.simplify_text", TRUE, w.t = v.t)          \* whatever the text contains: it is text
     \o Cl("C03.simplify_display", claim /\ HasStyle(v), claim => (ValReadable(w) /\ SameDisplay(v, w)))
     \o Cl("C03.simplify_parsable", HasStyle(v), NoEsc(v.t) => (e.o.parsable = 1 /\ ValAllSingle(w)))
     \o Cl("C03.simplify_idempotent", HasStyle(v), NoEsc(v.t) => e.o.q2 = w.q)
     \o Cl("C03.simplify_fixed_point", HasStyle(v), NoEsc(v.t) => e.o.rt = w.q)
     \o KindC(e, pre, post, v.k)

---------------------------------------------------------------------------
\* C17: settings queries
RECURSIVE JoinTexts(_, _)
JoinTexts(ids, i) == IF i > Len(ids) THEN << >>
                     ELSE TextTable[ids[i]] \o (IF i < Len(ids) THEN <<SEMI>> ELSE << >>) \o JoinTexts(ids, i + 1)

SettingsAtC(e, pre, post) ==
  LET v == pre[e.r] n == Len(v.t) i == e.a.i IN
     Cl("C17.at_defined", TRUE, e.out = "ok")
  \o IF e.out # "ok" THEN None ELSE
        Cl("C17.outside_empty", i < 0 \/ i >= n, (i < 0 \/ i >= n) => e.o.lst = << >>)
     \o Cl("C17.inside_is_reported", i >= 0 /\ i < n /\ v.s[i+1] # << >>, (i >= 0 /\ i < n) => e.o.lst = v.s[i+1])
     \o Cl("C17.settings_at_is_join", e.o.lst # << >>, e.o.str = JoinTexts(Tids(e.o.lst), 1))

FindSettingsC(e, pre, post) ==
  LET v == pre[e.r] n == Len(v.t)
      lo == NormLo(e.a.start, n) hi == NormHi(e.a.end, n)
      S == e.a.S
      Has(p) == p >= 0 /\ p < n /\ \A k \in DOMAIN S : \E j \in DOMAIN v.s[p+1] : v.s[p+1][j][2] = S[k]
      fwd == e.a.reverse = 0
  IN Cl("C17.find_defined", TRUE, e.out = "ok" /\ e.o.shape = 1)
  \o IF e.out # "ok" \/ e.o.shape # 1 THEN None ELSE
     LET fs == e.o.fs fe == e.o.fe IN
        Cl("C17.find_bad_range", hi < lo, hi < lo => (fs = << >> /\ fe = << >>))
     \o Cl("C17.find_empty_settings", S = << >> /\ hi >= lo, (S = << >> /\ hi >= lo) => (fs = <<lo>> /\ fe = <<hi>>))
     \o Cl("C17.find_none", S # << >> /\ hi >= lo /\ ~\E p \in lo..hi : Has(p),
           (S # << >> /\ hi >= lo /\ ~\E p \in lo..hi : Has(p)) => (fs = << >> /\ fe = << >>))
     \o Cl("C17.find_some", S # << >> /\ \E p \in lo..(hi - 1) : Has(p),
           (S # << >> /\ \E p \in lo..(hi - 1) : Has(p)) => fs # << >>)
     \o Cl("C17.find_start_has_all", S # << >> /\ fs # << >>,
           (S # << >> /\ hi >= lo /\ fs # << >>) => (fs[1] >= lo /\ fs[1] <= hi /\ Has(fs[1])))
     \o Cl("C17.find_first", fwd /\ S # << >> /\ \E p \in lo..(hi - 1) : Has(p),
           (fwd /\ S # << >> /\ hi >= lo /\ \E p \in lo..(hi - 1) : Has(p)) =>
              (fs # << >> /\ Has(fs[1]) /\ \A p \in lo..(fs[1] - 1) : ~Has(p)))
     \o Cl("C17.find_run", S # << >> /\ fs # << >>,
           (S # << >> /\ hi >= lo /\ fs # << >>) =>
              \A p \in fs[1]..((IF fe = << >> THEN hi ELSE fe[1]) - 1) : Has(p))
     \o Cl("C17.find_end", S # << >> /\ fe # << >>,
           (S # << >> /\ hi >= lo /\ fe # << >>) =>
              (fs # << >> /\ fe[1] > fs[1] /\ fe[1] <= hi /\ (fe[1] < n => ~Has(fe[1]))))
     \o Cl("C17.find_end_none_means_never_removed", S # << >> /\ fs # << >> /\ fe = << >>,
           (S # << >> /\ hi >= lo /\ fs # << >> /\ fe = << >>) => \A p \in fs[1]..(hi - 1) : Has(p))

---------------------------------------------------------------------------
\* C16: format_matching / unformat_matching = the explicit loop of apply/remove over re matches.
\* e.a.spans are the first `count` matches of Python's re on the base text (logged oracle);
\* the last result register holds the twin on which the harness performed the explicit loop.
MatchingC(e, pre, post) ==
  LET v == pre[e.r] n == Len(v.t)
      spans == e.a.spans
      InSpan(i) == \E k \in DOMAIN spans : spans[k][1] < i /\ i <= spans[k][2]
  IN Cl("C16.defined", e.a.pat_ok = 1, e.a.pat_ok = 1 => e.out = "ok")
  \o IF ~HasResult(e) \/ e.a.pat_ok # 1 THEN None ELSE
     LET w == ResultOf(e, post)
         twin == post[e.res[Len(e.res)]]
         styled == HasStyle(v) \/ e.a.S # << >>
     IN Cl("C16.text", TRUE, w.t = v.t)
     \o Cl("C16.equals_explicit_loop", spans # << >> /\ styled, EquivVal(w, twin))
     \o Cl("C16.renders_like_explicit_loop", spans # << >> /\ styled, w.q = twin.q)
     \o Cl("C16.outside_matches", HasStyle(v) /\ \E i \in 1..n : ~InSpan(i),
           Len(w.s) = n /\ \A i \in 1..n : ~InSpan(i) => Equiv(w.s[i], v.s[i]))
     \o Cl("C16.no_match_no_change", spans = << >> /\ HasStyle(v), spans = << >> => EquivVal(w, v))

---------------------------------------------------------------------------
\* C13: the AnsiStr result (a) of an operation equals the AnsiString result (b) of the same operation
TwinC(e, pre, post) ==
  IF e.tag = "spell" THEN
     \* C14: the same history with every settings argument spelled differently gives the same value
     Cl("C14.history_same_settings", HasStyle(pre[e.a.b[1]]), EquivVal(pre[e.a.a[1]], pre[e.a.b[1]]))
  \o Cl("C14.history_same_rendering", HasStyle(pre[e.a.b[1]]), pre[e.a.a[1]].q = pre[e.a.b[1]].q)
  ELSE IF e.tag = "again" THEN
     \* C08: a result is independent of its sources and of EARLIER results of the same call: converting the same
     \* arguments again, after the first result (a = snapshot copy of it taken at once) was mutated, gives the same value
     Cl("C08.same_call_same_value", HasStyle(pre[e.a.a[1]]) \/ HasStyle(pre[e.a.b[1]]), EquivVal(pre[e.a.a[1]], pre[e.a.b[1]]))
  \o Cl("C08.same_call_same_rendering", HasStyle(pre[e.a.a[1]]) \/ HasStyle(pre[e.a.b[1]]), pre[e.a.a[1]].q = pre[e.a.b[1]].q)
  ELSE
     Cl("C13.twin_count", TRUE, Len(e.a.a) = Len(e.a.b))
  \o IF Len(e.a.a) # Len(e.a.b) THEN None ELSE
        Cl("C13.twin_kind", TRUE, \A k \in DOMAIN e.a.a : pre[e.a.a[k]].k = "A")
     \o Cl("C13.twin_equiv", \E k \in DOMAIN e.a.b : HasStyle(pre[e.a.b[k]]),
           \A k \in DOMAIN e.a.a : EquivVal(pre[e.a.a[k]], pre[e.a.b[k]]))
     \o Cl("C13.twin_render", \E k \in DOMAIN e.a.b : HasStyle(pre[e.a.b[k]]),
           \A k \in DOMAIN e.a.a : pre[e.a.a[k]].q = pre[e.a.b[k]].q)
     \o Cl("C13.twin_payload", TRUE, \A k \in DOMAIN e.a.a : pre[e.a.a[k]].p = pre[e.a.a[k]].q)

---------------------------------------------------------------------------
\* ==: "exactly equal" - objects that compare equal report the same text and settings; a copy compares equal
EqC(e, pre, post) ==
  LET x == pre[e.r] y == pre[e.a.other] IN
     (IF e.tag = "probe_copy_eq" THEN Cl("C08.copy_compares_equal", TRUE, e.out = "ok" /\ e.o.eq = 1) ELSE None)
  \o Cl("C08.eq_defined", TRUE, e.out = "ok")
  \o (IF e.out = "ok" /\ x.k = "S" /\ y.k = "S"
      THEN Cl("C08.equal_objects_report_the_same", e.o.eq = 1 /\ HasStyle(x), e.o.eq = 1 => (EquivVal(x, y) /\ x.q = y.q))
        \o Cl("C08.eq_reflexive", e.r = e.a.other, e.r = e.a.other => e.o.eq = 1)
      ELSE None)

---------------------------------------------------------------------------
OpClauses(e, pre, post) ==
  CASE e.op = "new"    -> NewC(e, pre, post)
    [] e.op = "copy"   -> CopyC(e, pre, post)
    [] e.op \in {"slice", "clip"} -> SliceC(e, pre, post)
    [] e.op = "index"  -> IndexC(e, pre, post)
    [] e.op = "iter"   -> IterC(e, pre, post)
    [] e.op \in {"add", "iadd"} -> ConcatC(e, pre, post, <<e.r, e.a.other>>, pre[e.r].k)
    [] e.op = "join"   -> IF e.a.items = << >> THEN None
                          ELSE ConcatC(e, pre, post, e.a.items, e.a.cls)
    [] e.op = "apply"  -> ApplyC(e, pre, post)
    [] e.op = "remove" -> RemoveC(e, pre, post)
    [] e.op = "clear"  -> ClearC(e, pre, post)
    [] e.op = "eq"     -> EqC(e, pre, post)
    [] e.op = "twin_eq" ->       \* C13: the shared operators == and != answer alike in both classes
         Cl("C13.eq_agrees", TRUE, e.o.eq_a = e.o.eq_s)
      \o Cl("C13.ne_agrees", TRUE, e.o.ne_a = e.o.ne_s)
      \o Cl("C13.ne_is_not_eq", TRUE, e.o.ne_a # e.o.eq_a /\ e.o.ne_plain # e.o.eq_plain)
    [] e.op = "noop"   -> None
    [] e.op = "render" -> RenderC(e, pre, post)
    [] e.op = "reparse" -> ReparseC(e, pre, post)
    [] e.op = "simplify" -> SimplifyC(e, pre, post)
    [] e.op = "ansi_settings_at" -> SettingsAtC(e, pre, post)
    [] e.op = "find_settings" -> FindSettingsC(e, pre, post)
    [] e.op \in {"format_matching", "unformat_matching"} -> MatchingC(e, pre, post)
    [] e.op = "twincheck" -> TwinC(e, pre, post)
    [] e.op = "twinrender" -> Cl("C13.twin_render_flags", TRUE, e.a.a = e.a.b)
    [] e.op = "pgs"    -> PgsC(e)
    [] e.op = "s2d"    -> S2dC(e)
    [] e.op = "pcs"    -> PcsC(e)
    [] e.op = "helper" -> HelperC(e)
    [] e.op = "aset"   -> AsetC(e)
    [] e.op = "scrub"  -> ScrubC(e)
    [] OTHER -> TextOpClauses(e, pre, post)

\* in the doubly-spelled histories of check C14 (tag "sp") a failing apply/remove contract is also a C14 failure:
\* the spelling was not read as the settings it denotes
ApplyRemoveClauseNames ==
  {"C06.defined", "C06.text", "C06.noop", "C06.outside", "C06.inside_gains", "C06.bottom_display", "C06.top_display",
   "C07.defined", "C07.text", "C07.noop", "C07.inside", "C07.outside", "C07.outside_display"}
SpelledC(e, cl) ==
  IF e.tag # "sp" THEN None
  ELSE Cl("C14.history_op_contract", TRUE,
          \A i \in DOMAIN cl : cl[i][3] \/ cl[i][1] \notin ApplyRemoveClauseNames)

Clauses(e, pre, post) ==
  LET cl == Common(e, pre, post) \o OpClauses(e, pre, post) IN cl \o SpelledC(e, cl)
=============================================================================
